from Reduino import target
target("COM3")
from Reduino.Communication import SerialMonitor
from Reduino.Core import analog_read

mon = SerialMonitor(9600)
new = analog_read(0)
mon.write(new)
