from Reduino import target
target("COM3")
from Reduino.Communication import SerialMonitor
from Reduino.Utils import sleep
mon = SerialMonitor(9600)
for i in range(3):
    mon.write(i)
    i = 5
