from Reduino import target
target("COM3")
from Reduino.Communication import SerialMonitor
mon = SerialMonitor(9600)
mon.write(round(2.5))
mon.write(round(3.5))
