from Reduino import target
target("COM3")
from Reduino.Displays import LCD
from Reduino.Communication import SerialMonitor
from Reduino.Utils import sleep
mon = SerialMonitor(9600)
lcd = LCD(rs=12, en=11, d4=5, d5=4, d6=3, d7=2)
def start():
    lcd.animate("scroll", 0, "Hello world, this is long", speed_ms=10, loop=True)
    return 1
q = start()
mon.write("@start")
while True:
    mon.write("@p")
    sleep(20)
