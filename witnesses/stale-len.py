# tapes: {"A": {"14": [100]}}
from Reduino import target
target("COM3")
from Reduino.Communication import SerialMonitor
from Reduino.Utils import sleep
mon = SerialMonitor(9600)
from Reduino.Core import analog_read
items = [1, 2]
if analog_read(0) > 500:
    items.append(3)
mon.write(len(items))
