from Reduino import target
target("COM3")
from Reduino.Communication import SerialMonitor
from Reduino.Displays import LCD
from Reduino.Utils import sleep
mon = SerialMonitor(9600)
lcd = LCD(rs=12, en=11, d4=5, d5=4, d6=3, d7=7)
n = 0
while True:
    n += 1
    if n == 1:
        lcd.animate("scroll", 0, "hello world", speed_ms=0, loop=True)
    mon.write("@p")
    sleep(10)
