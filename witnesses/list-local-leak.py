from Reduino import target
target("COM3")
from Reduino.Communication import SerialMonitor
from Reduino.Utils import sleep
mon = SerialMonitor(9600)
while True:
    local_list = [1, 2, 3]
    mon.write(local_list[0])
    sleep(5)
