from Reduino import target
target("COM3")
from Reduino.Communication import SerialMonitor
from Reduino.Utils import sleep
mon = SerialMonitor(9600)
a = 2.5
b = abs(a - 4.25)
mon.write(b)
