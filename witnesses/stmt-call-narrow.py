from Reduino import target
target("COM3")
from Reduino.Communication import SerialMonitor
from Reduino.Utils import sleep
mon = SerialMonitor(9600)
def show(v):
    mon.write(v)

show(2.5)
