# tapes: {"A": {"14": [300]}}
from Reduino import target
target("COM3")
from Reduino.Communication import SerialMonitor
from Reduino.Core import analog_read
mon = SerialMonitor(9600)
level = analog_read(0)
name = ""
if level >= 0:
    name = "abc"
mon.write(len(name))
