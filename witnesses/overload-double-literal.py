from Reduino import target
target("COM3")
from Reduino.Communication import SerialMonitor
mon = SerialMonitor(9600)
def scale(v):
    return v * 2
a = scale(3)
b = scale(1.5)
mon.write(a)
mon.write(b)
