from Reduino import target
target("COM3")
from Reduino.Communication import SerialMonitor
from Reduino.Utils import sleep
mon = SerialMonitor(9600)
mon.write("start")
while True:
    mon.write("tick")
    sleep(10)
mon.write("never")
