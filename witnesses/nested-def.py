from Reduino import target
target("COM3")
from Reduino.Communication import SerialMonitor
mon = SerialMonitor(9600)
def outer(a):
    def inner(b):
        return b + 1
    return inner(a) * 2
q = outer(3)
mon.write(q)
