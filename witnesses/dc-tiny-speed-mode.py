from Reduino import target
target("COM3")
from Reduino.Actuators import DCMotor
from Reduino.Communication import SerialMonitor
mon = SerialMonitor(9600)
m = DCMotor(4, 5, 6)
m.set_speed(0.001)
mon.write(m.get_mode())
