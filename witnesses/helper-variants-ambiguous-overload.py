from Reduino import target
target("COM3")
from Reduino.Actuators import Led, RGBLed, Servo, DCMotor, Buzzer
from Reduino.Communication import SerialMonitor
from Reduino.Displays import LCD
from Reduino.Sensors import Button, Potentiometer, Ultrasonic
from Reduino.Utils import sleep
from Reduino.Core import pin_mode, digital_write, analog_write, digital_read, analog_read, OUTPUT, INPUT, HIGH, LOW

mon = SerialMonitor(9600)
def pick(s, k):
    if k > 1:
        return k
    return len(s)

d = pick("ab", 1)
e = pick("ab", 2.5)
mon.write(d)
mon.write(e)
