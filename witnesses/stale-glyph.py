# tapes: {"A": {"14": [300]}}
from Reduino import target
target("COM3")
from Reduino.Communication import SerialMonitor
from Reduino.Displays import LCD
from Reduino.Core import analog_read
mon = SerialMonitor(9600)
lcd = LCD(rs=12, en=13, d4=2, d5=3, d6=4, d7=7)
level = analog_read(0)
row = 21
if level >= 0:
    row = 10
lcd.glyph(1, [row, 10, 4, 31, 10, 0, 31, 10])
mon.write("@glyph")
