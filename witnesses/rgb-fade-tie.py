from Reduino import target
target("COM3")
from Reduino.Actuators import RGBLed
from Reduino.Communication import SerialMonitor
mon = SerialMonitor(9600)
rgb = RGBLed(9, 10, 11)
rgb.fade(5, 0, 0, duration_ms=10, steps=2)
mon.write("done")
