from Reduino import target
target("COM3")
from Reduino.Communication import SerialMonitor
from Reduino.Utils import sleep
mon = SerialMonitor(9600)
n = 3
for i in range(n):
    n = n - 1
    mon.write(i)
