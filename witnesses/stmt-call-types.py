from Reduino import target
target("COM3")
from Reduino.Communication import SerialMonitor
from Reduino.Utils import sleep
mon = SerialMonitor(9600)
def show(msg):
    mon.write(msg)

show("hello")
