from Reduino import target
target("COM3")
from Reduino.Communication import SerialMonitor
from Reduino.Utils import sleep

mon = SerialMonitor(9600)
lo = 10
lo, hi = 20, 200
while True:
    mon.write(hi)
    mon.write(lo)
    sleep(5)
