from Reduino import target
target("COM3")
from Reduino.Communication import SerialMonitor
from Reduino.Utils import sleep
mon = SerialMonitor(9600)
a = -7
b = 2
mon.write(a // b)
