from Reduino import target
target("COM3")
from Reduino.Communication import SerialMonitor
from Reduino.Utils import sleep
mon = SerialMonitor(9600)
x = 1
x += 0.5
mon.write(x)
