from Reduino import target
target("COM3")
from Reduino.Actuators import Servo, Led
from Reduino.Communication import SerialMonitor
from Reduino.Core import analog_read
from Reduino.Utils import sleep

mon = SerialMonitor(9600)
base = analog_read(0) % 2 + 8
p = base + 1
sv = Servo(p)
sv.write(40)
mon.write(sv.read())
