from Reduino import target
target("COM3")
from Reduino.Communication import SerialMonitor
from Reduino.Utils import sleep
mon = SerialMonitor(9600)
a = [1, 2, 3]
b = a
a.append(4)
mon.write(b[0])
