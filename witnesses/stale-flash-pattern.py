# tapes: {"A": {"14": [300]}}
from Reduino import target
target("COM3")
from Reduino.Actuators import Led
from Reduino.Communication import SerialMonitor
from Reduino.Core import analog_read
mon = SerialMonitor(9600)
led = Led(5)
level = analog_read(0)
pat = [1, 0, 1]
if level >= 0:
    pat = [0, 1, 0]
led.flash_pattern(pat, 3)
mon.write(int(led.get_state()))
