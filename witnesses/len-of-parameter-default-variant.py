from Reduino import target
target("COM3")
from Reduino.Actuators import Led, RGBLed, Servo, DCMotor, Buzzer
from Reduino.Communication import SerialMonitor
from Reduino.Displays import LCD
from Reduino.Sensors import Button, Potentiometer, Ultrasonic
from Reduino.Utils import sleep
from Reduino.Core import pin_mode, digital_write, analog_write, digital_read, analog_read, OUTPUT, INPUT, HIGH, LOW

mon = SerialMonitor(9600)
def inner(s):
    return len(s)

def outer(s):
    return inner(s) + 1

d = outer("ab")
mon.write(d)
