from Reduino import target
target("COM3")
from Reduino.Communication import SerialMonitor
mon = SerialMonitor(9600)
def scale(v):
    half = v
    v = v * 0.5
    return half

mon.write(scale(2.5))
