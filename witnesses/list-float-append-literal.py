from Reduino import target
target("COM3")
from Reduino.Communication import SerialMonitor
from Reduino.Utils import sleep
mon = SerialMonitor(9600)
vals = [0.5]
vals.append(1.5)
mon.write(vals[1])
