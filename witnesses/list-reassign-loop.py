from Reduino import target
target("COM3")
from Reduino.Communication import SerialMonitor
from Reduino.Utils import sleep
mon = SerialMonitor(9600)
vals = [1, 2, 3]
while True:
    vals = [4, 5, 6]
    mon.write(vals[1])
    sleep(5)
