from Reduino import target
target("COM3")
from Reduino.Actuators import Servo
from Reduino.Communication import SerialMonitor
from Reduino.Utils import sleep

mon = SerialMonitor(9600)
sv = Servo(9, min_angle=-90, max_angle=90)
sv.write(-45.4)
mon.write(sv.read())
mon.write(sv.read_us())
sv.write(-0.6)
mon.write(sv.read())
sv.write(30.6)
mon.write(sv.read())
