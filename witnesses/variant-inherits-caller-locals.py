from Reduino import target
target("COM3")
from Reduino.Communication import SerialMonitor
from Reduino.Utils import sleep

mon = SerialMonitor(9600)
def inner(v):
    w = v * 2
    return w

def outer(n):
    w = n + 1
    r = inner(2.5)
    return r + w

q = outer(3)
mon.write(q)
