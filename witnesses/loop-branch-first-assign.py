from Reduino import target
target("COM3")
from Reduino.Communication import SerialMonitor
from Reduino.Utils import sleep
mon = SerialMonitor(9600)
n = 0
while True:
    n += 1
    if n == 1:
        y = 5
    mon.write(y)
    sleep(10)
