from Reduino import target
target("COM3")
from Reduino.Communication import SerialMonitor
from Reduino.Displays import LCD
mon = SerialMonitor(9600)
lcd = LCD(rs=12, en=11, d4=5, d5=4, d6=3, d7=2, cols=8, rows=1)
lcd.message("top", "bottom")
mon.write("@0")
