from Reduino import target
target("COM3")
from Reduino.Communication import SerialMonitor
mon = SerialMonitor(9600)
def tag(p0, p1):
    s9 = p1
    p1 = (p1 if (p0 <= 2) else "hi there")
    return s9

mon.write(tag(2, "b"))
