from Reduino import target
target("COM3")
from Reduino.Communication import SerialMonitor
from Reduino.Utils import sleep
mon = SerialMonitor(9600)
for i in range(4):
    if i == 1:
        continue
    mon.write(i)
