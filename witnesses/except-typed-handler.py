from Reduino import target
target("COM3")
from Reduino.Actuators import Led
led = Led(9)
try:
    led.on()
except Exception:
    led.off()
