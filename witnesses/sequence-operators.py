from Reduino import target
target("COM3")
from Reduino.Communication import SerialMonitor
mon = SerialMonitor(9600)
xs = [1, 2] + [3]
mon.write(len(xs))
