from Reduino import target
target("COM3")
from Reduino.Communication import SerialMonitor
from Reduino.Utils import sleep
mon = SerialMonitor(9600)
a = 5
b = 7
c = a and b
mon.write(c)
