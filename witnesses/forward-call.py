from Reduino import target
target("COM3")
from Reduino.Communication import SerialMonitor
from Reduino.Utils import sleep
mon = SerialMonitor(9600)
def a(x):
    return b(x) + 1

def b(x):
    return x * 2

mon.write(a(2))
