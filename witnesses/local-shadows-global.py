from Reduino import target
target("COM3")
from Reduino.Communication import SerialMonitor
from Reduino.Utils import sleep
mon = SerialMonitor(9600)
total = 10
def f(a):
    total = a + 1
    return total

mon.write(f(1))
mon.write(total)
