from Reduino import target
target("COM3")
from Reduino.Actuators import Servo
from Reduino.Communication import SerialMonitor
mon = SerialMonitor(9600)
lo = 10
hi = lo + 100
arm = Servo(9, min_angle=lo, max_angle=hi)
arm.write(50)
mon.write(arm.read())
