from Reduino import target
target("COM3")
from Reduino.Communication import SerialMonitor
mon = SerialMonitor(9600)
for k in range(3):
    mon.write(k)
mon.write(k + 10)
