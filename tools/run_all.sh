#!/bin/bash
# tools/run_all.sh [tier] [seed]  -- run every check; summary lines only
tier=${1:-quick}; seed=${2:-0}
cd "$(dirname "$0")/.."
for c in C01 C02 C03 C04 C05 C06 C07 C08 C09 C10 C11 C12 C13 C14 C15 C16 C17 C18 C19 C20; do
  s=$(date +%s)
  out=$(VERIF_TIER=$tier VERIF_SEED=$seed ./check $c 2>&1); rc=$?
  e=$(( $(date +%s) - s ))
  echo "== $c tier=$tier seed=$seed rc=$rc ${e}s"
  echo "$out" | grep -E "^(VIOLATION|INCONCLUSIVE|  what)" | cut -c1-400 | head -12
done
