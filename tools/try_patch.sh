#!/bin/bash
# usage: tools/try_patch.sh <patch.diff> <check-id>...   -- applies the patch to /repo, runs the quick checks, reverts.
set -u
patch="$1"; shift
cd /verif
if ! git -C /repo diff --quiet; then echo "/repo has uncommitted changes"; exit 2; fi
git -C /repo apply "$patch" || { echo "patch does not apply"; exit 2; }
trap 'git -C /repo checkout -- . ; git -C /repo clean -fdq src tests 2>/dev/null' EXIT
for c in "$@"; do
  out=$(VERIF_TIER=${VERIF_TIER:-quick} ./check "$c" 2>&1)
  rc=$?
  echo "== $c rc=$rc $(echo "$out" | grep -c '^VIOLATION') violation line(s)"
  echo "$out" | grep -E "^  what" | head -3 | cut -c1-260
done
