#!/bin/bash
# tools/confirm_mutation.sh <Cxx> <i>  -- confirm a sub-agent mutation in a scratch worktree (never in /repo):
#   patch applies to HEAD, tests pass with it, demo fails with it and passes without it; then copy to /verif/seeded/<Cxx>-<i>/
set -u
pid="$1"; i="$2"
src="/tmp/wt_${pid}/mutations/${i}"
wt="/tmp/wt_confirm_${pid}_${i}"
[ -f "$src/patch.diff" ] || { echo "no patch at $src"; exit 2; }
git -C /repo worktree add -q --detach "$wt" HEAD || exit 2
trap 'git -C /repo worktree remove --force "$wt" >/dev/null 2>&1' EXIT
cd "$wt"
# 3-way apply (exact placement via the blob ids in the patch), then re-create the patch against the current HEAD
res_apply=ok; git apply -3 "$src/patch.diff" >/tmp/apply_err_$$ 2>&1 || res_apply="FAIL: $(head -2 /tmp/apply_err_$$)"
if [ "$res_apply" = ok ] && git diff --name-only --diff-filter=U | grep -q .; then res_apply="FAIL: conflicts"; fi
if [ "$res_apply" = ok ]; then git reset -q; git diff HEAD -- src > /tmp/rebased_$$.diff; fi
rm -f /tmp/apply_err_$$
if [ "$res_apply" != ok ]; then echo "$pid-$i apply=$res_apply"; exit 1; fi
tests=$(PYTHONPATH="$wt/src" timeout 600 /venv/bin/python -m pytest -q -p no:cacheprovider 2>&1 | tail -1)
PYTHONPATH="$wt/src" timeout 120 /venv/bin/python "$src/demo.py" >/tmp/demo_with_$$ 2>&1; rc_with=$?
if grep -q "^def test_" "$src/demo.py" && [ $rc_with -eq 0 ]; then PYTHONPATH="$wt/src" timeout 120 /venv/bin/python -m pytest -q -p no:cacheprovider "$src/demo.py" >/tmp/demo_with_$$ 2>&1; rc_with=$?; fi
git checkout -q -- src; git reset -q --hard HEAD
PYTHONPATH="$wt/src" timeout 120 /venv/bin/python "$src/demo.py" >/tmp/demo_without_$$ 2>&1; rc_without=$?
if grep -q "^def test_" "$src/demo.py"; then PYTHONPATH="$wt/src" timeout 120 /venv/bin/python -m pytest -q -p no:cacheprovider "$src/demo.py" >/tmp/demo_without_$$ 2>&1; rc_without=$?; fi
rm -f /tmp/demo_with_$$ /tmp/demo_without_$$
ok=no
case "$tests" in *"123 passed"*|*"100%"*) t_ok=yes;; *) t_ok=no;; esac
echo "$tests" | grep -q "failed" && t_ok=no
if [ "$t_ok" = yes ] && [ $rc_with -ne 0 ] && [ $rc_without -eq 0 ]; then ok=yes; fi
echo "$pid-$i apply=ok tests_pass=$t_ok demo_with_patch_rc=$rc_with demo_without_rc=$rc_without confirmed=$ok"
if [ "$ok" = yes ]; then
  dst="/verif/seeded/${pid}-${i}"
  mkdir -p "$dst"
  cp /tmp/rebased_$$.diff "$dst/patch.diff"; cp "$src/demo.py" "$dst/demo.py"
  if ! diff -q <(grep -v '^index ' "$src/patch.diff") <(grep -v '^index ' "$dst/patch.diff") >/dev/null; then cp "$src/patch.diff" "$dst/patch.orig.diff"; fi
  /venv/bin/python - "$src/meta.json" "$dst/meta.json" "$tests" <<'PY'
import json, sys
try:
    m = json.load(open(sys.argv[1]))
except Exception as e:
    m = {"note": f"agent meta.json unreadable: {e}"}
m["confirmed_by_me"] = {"worktree": "scratch git worktree of /repo HEAD (removed afterwards)", "tests_with_patch": sys.argv[3],
                        "demo": "fails (non-zero exit) with the patch applied, exits 0 on unchanged HEAD"}
json.dump(m, open(sys.argv[2], "w"), indent=1)
PY
fi
