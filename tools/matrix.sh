#!/bin/bash
# tools/matrix.sh [tier]  -- every seeded mutation vs the check of its own property; writes seeded/RESULTS_<tier>.txt
tier=${1:-quick}
cd "$(dirname "$0")/.."
out="seeded/RESULTS_${tier}.txt"
: > "$out"
for d in seeded/C*-*; do
  id=$(basename "$d")
  tools/eval_mutation.sh "$id" "$tier" 2>&1 | tail -1 | cut -c1-300 | tee -a "$out"
done
