#!/bin/bash
# tools/eval_mutation.sh <Cxx-i> [tier] [check-id...]  -- run checks against a scratch worktree of /repo with the seeded patch applied
set -u
id="$1"; tier="${2:-quick}"; shift; shift || true
checks="$@"; [ -z "$checks" ] && checks="${id%%-*}"
patch="/verif/seeded/$id/patch.diff"
[ -f "$patch" ] || { echo "no $patch"; exit 2; }
wt="/tmp/wt_eval_${id}_$$"
git -C /repo worktree add -q --detach "$wt" HEAD || exit 2
trap 'git -C /repo worktree remove --force "$wt" >/dev/null 2>&1' EXIT
git -C "$wt" apply "$patch" || { echo "$id: patch does not apply"; exit 2; }
cd /verif
for c in $checks; do
  out=$(REDU_REPO="$wt" VERIF_TIER=$tier VERIF_EVIDENCE_DIR=/tmp/evid_scratch ./check "$c" 2>&1); rc=$?
  nv=$(echo "$out" | grep -c '^VIOLATION')
  echo "$id vs $c ($tier): rc=$rc violations=$nv :: $(echo "$out" | grep -E '^  what' | head -2 | cut -c1-230 | tr '\n' '|')"
done
