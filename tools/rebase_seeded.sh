#!/bin/bash
# tools/rebase_seeded.sh [glob]  -- re-base every seeded patch onto the current /repo HEAD with a 3-way apply
# (plain `git apply` tolerates line offsets and can land a hunk with generic context on the wrong twin).
# The re-based patch replaces seeded/<id>/patch.diff, the author's original is kept as patch.orig.diff.
set -u
glob=${1:-"C*-*"}
wt=/tmp/wt_rebase_$$
git -C /repo worktree add -q --detach "$wt" HEAD || exit 2
trap 'git -C /repo worktree remove --force "$wt" >/dev/null 2>&1' EXIT
head=$(git -C /repo rev-parse --short HEAD)
for d in /verif/seeded/$glob; do
  [ -f "$d/patch.diff" ] || continue
  id=$(basename "$d")
  git -C "$wt" checkout -q -- . ; git -C "$wt" reset -q --hard HEAD
  src="$d/patch.diff"; [ -f "$d/patch.orig.diff" ] && ! grep -q rebase_note "$d/meta.json" && src="$d/patch.orig.diff"
  if git -C "$wt" apply -3 "$src" >/tmp/rb_$$.log 2>&1 && ! git -C "$wt" diff --name-only --diff-filter=U | grep -q .; then
    git -C "$wt" diff HEAD -- src > /tmp/rb_$$.diff
    if [ ! -s /tmp/rb_$$.diff ]; then echo "$id EMPTY after rebase"; continue; fi
    if ! diff -q <(grep -v '^index ' /tmp/rb_$$.diff) <(grep -v '^index ' "$d/patch.diff") >/dev/null; then
      [ -f "$d/patch.orig.diff" ] || cp "$d/patch.diff" "$d/patch.orig.diff"
      cp /tmp/rb_$$.diff "$d/patch.diff"
      echo "$id rebased onto $head"
    else
      echo "$id unchanged"
    fi
  else
    echo "$id CONFLICT: $(head -2 /tmp/rb_$$.log | tr '\n' ' ')"
  fi
done
rm -f /tmp/rb_$$.log /tmp/rb_$$.diff
