#!/bin/bash
# evaluate a subset (by index glob) of seeded mutations:  tools/matrix2.sh "<glob>" [tier] [outfile]
glob=${1:-"C*-[456]"}; tier=${2:-quick}; out=${3:-/verif/seeded/RESULTS_${tier}_round2.txt}
cd /verif; : > "$out"
for d in seeded/$glob; do id=$(basename "$d"); tools/eval_mutation.sh "$id" "$tier" 2>&1 | tail -1 | cut -c1-330 | tee -a "$out"; done
