#!/usr/bin/env python3
"""tools/mkpatch.py <out.diff> <file-relative-to-repo> <old-text> <new-text>  -- build a patch against /repo HEAD without touching /repo."""
import subprocess, sys, tempfile, os, shutil
out, rel, old, new = sys.argv[1:5]
src = open(os.path.join("/repo", rel)).read()
assert src.count(old) == 1, f"old text occurs {src.count(old)} times"
d = tempfile.mkdtemp(prefix="reduverif-mk-")
try:
    a = os.path.join(d, "a", rel); b = os.path.join(d, "b", rel)
    os.makedirs(os.path.dirname(a)); os.makedirs(os.path.dirname(b))
    open(a, "w").write(src); open(b, "w").write(src.replace(old, new))
    p = subprocess.run(["diff", "-u", os.path.join("a", rel), os.path.join("b", rel)], cwd=d, capture_output=True, text=True)
    open(out, "w").write(p.stdout)
finally:
    shutil.rmtree(d)
print("wrote", out)
