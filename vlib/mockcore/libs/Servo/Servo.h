// Mock of the Arduino Servo library: records attach/write/writeMicroseconds events.
#ifndef MOCK_SERVO_H
#define MOCK_SERVO_H
#include <Arduino.h>
class Servo {
public:
  Servo();
  uint8_t attach(int pin);
  uint8_t attach(int pin, int min, int max);
  void detach();
  void write(int value);
  void writeMicroseconds(int value);
  int read();
  int readMicroseconds();
  bool attached();
private:
  int mock_id;
  int mock_pin;
  int mock_min;
  int mock_max;
  int mock_us;
};
#endif
