// Mock of the LiquidCrystal_I2C library (PCF8574 backpack): keeps a simulated cell matrix.
#ifndef MOCK_LIQUIDCRYSTAL_I2C_H
#define MOCK_LIQUIDCRYSTAL_I2C_H
#include <Arduino.h>
#include <Wire.h>
struct MockLcdCore;
class LiquidCrystal_I2C : public Print {
public:
  LiquidCrystal_I2C(uint8_t lcd_Addr, uint8_t lcd_cols, uint8_t lcd_rows);
  void begin(uint8_t cols, uint8_t rows, uint8_t charsize = 0);
  void init();
  void clear();
  void home();
  void noDisplay();
  void display();
  void noBlink();
  void blink();
  void noCursor();
  void cursor();
  void noBacklight();
  void backlight();
  void createChar(uint8_t, uint8_t[]);
  void setCursor(uint8_t, uint8_t);
  virtual size_t write(uint8_t);
  using Print::write;
private:
  MockLcdCore *mock;
};
#endif
