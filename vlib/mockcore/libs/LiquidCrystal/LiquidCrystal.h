// Mock of the Arduino LiquidCrystal library: keeps a simulated cell matrix.
#ifndef MOCK_LIQUIDCRYSTAL_H
#define MOCK_LIQUIDCRYSTAL_H
#include <Arduino.h>
struct MockLcdCore;
class LiquidCrystal : public Print {
public:
  LiquidCrystal(uint8_t rs, uint8_t enable, uint8_t d0, uint8_t d1, uint8_t d2, uint8_t d3);
  LiquidCrystal(uint8_t rs, uint8_t rw, uint8_t enable, uint8_t d0, uint8_t d1, uint8_t d2, uint8_t d3);
  void begin(uint8_t cols, uint8_t rows, uint8_t charsize = 0);
  void clear();
  void home();
  void noDisplay();
  void display();
  void noBlink();
  void blink();
  void noCursor();
  void cursor();
  void scrollDisplayLeft();
  void scrollDisplayRight();
  void createChar(uint8_t, uint8_t[]);
  void setCursor(uint8_t, uint8_t);
  virtual size_t write(uint8_t);
  using Print::write;
private:
  MockLcdCore *mock;
};
#endif
