// Mock Wire.h (framework-bundled library on the AVR core).
#ifndef MOCK_WIRE_H
#define MOCK_WIRE_H
#include <Arduino.h>
class TwoWire {
public:
  void begin();
  void setClock(uint32_t);
};
extern TwoWire Wire;
#endif
