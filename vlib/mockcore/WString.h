// Mock of the Arduino AVR core's WString.h (API surface and conversion rules copied from the
// core's header so that overload resolution in a sketch succeeds/fails as on the device).
// Implementation lives in runtime.cpp.  No C++ standard library types appear here: the sketch
// translation unit is compiled with -nostdinc++ (avr-gcc ships no libstdc++).
#ifndef MOCK_WSTRING_H
#define MOCK_WSTRING_H

#include <stddef.h>
#include <stdint.h>
#include <string.h>
#include <stdlib.h>

class __FlashStringHelper;
#define PSTR(s) (s)
#define F(string_literal) (reinterpret_cast<const __FlashStringHelper *>(PSTR(string_literal)))

class StringSumHelper;

class String {
  typedef void (String::*StringIfHelperType)() const;
  void StringIfHelper() const {}

public:
  String(const char *cstr = "");
  String(const String &str);
  String(const __FlashStringHelper *str);
  String(String &&rval);
  String(StringSumHelper &&rval);
  explicit String(char c);
  explicit String(unsigned char, unsigned char base = 10);
  explicit String(int, unsigned char base = 10);
  explicit String(unsigned int, unsigned char base = 10);
  explicit String(long, unsigned char base = 10);
  explicit String(unsigned long, unsigned char base = 10);
  explicit String(float, unsigned char decimalPlaces = 2);
  explicit String(double, unsigned char decimalPlaces = 2);
  ~String(void);

  unsigned char reserve(unsigned int size);
  inline unsigned int length(void) const { return len; }

  String &operator=(const String &rhs);
  String &operator=(const char *cstr);
  String &operator=(const __FlashStringHelper *str);
  String &operator=(String &&rval);
  String &operator=(StringSumHelper &&rval);

  unsigned char concat(const String &str);
  unsigned char concat(const char *cstr);
  unsigned char concat(char c);
  unsigned char concat(unsigned char c);
  unsigned char concat(int num);
  unsigned char concat(unsigned int num);
  unsigned char concat(long num);
  unsigned char concat(unsigned long num);
  unsigned char concat(float num);
  unsigned char concat(double num);
  unsigned char concat(const __FlashStringHelper *str);

  String &operator+=(const String &rhs) { concat(rhs); return (*this); }
  String &operator+=(const char *cstr) { concat(cstr); return (*this); }
  String &operator+=(char c) { concat(c); return (*this); }
  String &operator+=(unsigned char num) { concat(num); return (*this); }
  String &operator+=(int num) { concat(num); return (*this); }
  String &operator+=(unsigned int num) { concat(num); return (*this); }
  String &operator+=(long num) { concat(num); return (*this); }
  String &operator+=(unsigned long num) { concat(num); return (*this); }
  String &operator+=(float num) { concat(num); return (*this); }
  String &operator+=(double num) { concat(num); return (*this); }
  String &operator+=(const __FlashStringHelper *str) { concat(str); return (*this); }

  friend StringSumHelper &operator+(const StringSumHelper &lhs, const String &rhs);
  friend StringSumHelper &operator+(const StringSumHelper &lhs, const char *cstr);
  friend StringSumHelper &operator+(const StringSumHelper &lhs, char c);
  friend StringSumHelper &operator+(const StringSumHelper &lhs, unsigned char num);
  friend StringSumHelper &operator+(const StringSumHelper &lhs, int num);
  friend StringSumHelper &operator+(const StringSumHelper &lhs, unsigned int num);
  friend StringSumHelper &operator+(const StringSumHelper &lhs, long num);
  friend StringSumHelper &operator+(const StringSumHelper &lhs, unsigned long num);
  friend StringSumHelper &operator+(const StringSumHelper &lhs, float num);
  friend StringSumHelper &operator+(const StringSumHelper &lhs, double num);
  friend StringSumHelper &operator+(const StringSumHelper &lhs, const __FlashStringHelper *rhs);

  operator StringIfHelperType() const { return buffer ? &String::StringIfHelper : 0; }
  int compareTo(const String &s) const;
  unsigned char equals(const String &s) const;
  unsigned char equals(const char *cstr) const;
  unsigned char operator==(const String &rhs) const { return equals(rhs); }
  unsigned char operator==(const char *cstr) const { return equals(cstr); }
  unsigned char operator!=(const String &rhs) const { return !equals(rhs); }
  unsigned char operator!=(const char *cstr) const { return !equals(cstr); }
  unsigned char operator<(const String &rhs) const;
  unsigned char operator>(const String &rhs) const;
  unsigned char operator<=(const String &rhs) const;
  unsigned char operator>=(const String &rhs) const;
  unsigned char equalsIgnoreCase(const String &s) const;
  unsigned char startsWith(const String &prefix) const;
  unsigned char endsWith(const String &suffix) const;

  char charAt(unsigned int index) const;
  void setCharAt(unsigned int index, char c);
  char operator[](unsigned int index) const;
  char &operator[](unsigned int index);
  const char *c_str() const { return buffer; }

  int indexOf(char ch) const;
  int indexOf(const String &str) const;

  String substring(unsigned int beginIndex) const { return substring(beginIndex, len); }
  String substring(unsigned int beginIndex, unsigned int endIndex) const;

  void toLowerCase(void);
  void toUpperCase(void);
  void trim(void);

  long toInt(void) const;
  float toFloat(void) const;
  double toDouble(void) const;

protected:
  char *buffer;
  unsigned int capacity;
  unsigned int len;

  void init(void);
  void invalidate(void);
  unsigned char changeBuffer(unsigned int maxStrLen);
  unsigned char concat(const char *cstr, unsigned int length);
  String &copy(const char *cstr, unsigned int length);
  void move(String &rhs);
};

class StringSumHelper : public String {
public:
  StringSumHelper(const String &s) : String(s) {}
  StringSumHelper(const char *p) : String(p) {}
  StringSumHelper(char c) : String(c) {}
  StringSumHelper(unsigned char num) : String(num) {}
  StringSumHelper(int num) : String(num) {}
  StringSumHelper(unsigned int num) : String(num) {}
  StringSumHelper(long num) : String(num) {}
  StringSumHelper(unsigned long num) : String(num) {}
  StringSumHelper(float num) : String(num) {}
  StringSumHelper(double num) : String(num) {}
};

#endif
