// Mock Arduino core used by the verification harness (trusted base of the firmware-side
// verdicts).  Only C headers are included, mirroring avr-gcc (no libstdc++).  Macros are the
// AVR core's own definitions so that double evaluation of arguments is reproduced.
#ifndef MOCK_ARDUINO_H
#define MOCK_ARDUINO_H

#include <stdint.h>
#include <stddef.h>
#include <stdbool.h>
#include <string.h>
#include <stdlib.h>
#include <math.h>

#include "WString.h"

#define HIGH 0x1
#define LOW 0x0
#define INPUT 0x0
#define OUTPUT 0x1
#define INPUT_PULLUP 0x2

#define PI 3.1415926535897932384626433832795
#define LED_BUILTIN 13

#ifdef abs
#undef abs
#endif
#define min(a, b) ((a) < (b) ? (a) : (b))
#define max(a, b) ((a) > (b) ? (a) : (b))
#define abs(x) ((x) > 0 ? (x) : -(x))
#define constrain(amt, low, high) ((amt) < (low) ? (low) : ((amt) > (high) ? (high) : (amt)))
#define round(x) ((x) >= 0 ? (long)((x) + 0.5) : (long)((x) - 0.5))

typedef bool boolean;
typedef uint8_t byte;
typedef unsigned int word;

// Uno pin numbering for the analogue inputs.
static const uint8_t A0 = 14;
static const uint8_t A1 = 15;
static const uint8_t A2 = 16;
static const uint8_t A3 = 17;
static const uint8_t A4 = 18;
static const uint8_t A5 = 19;
static const uint8_t A6 = 20;
static const uint8_t A7 = 21;

void pinMode(uint8_t pin, uint8_t mode);
void digitalWrite(uint8_t pin, uint8_t val);
int digitalRead(uint8_t pin);
int analogRead(uint8_t pin);
void analogWrite(uint8_t pin, int val);

// On the AVR `unsigned long` is 32 bits wide: the clock functions wrap at 2^32 (millis() after ~49.7 days, micros() after
// ~71 minutes).  The prototypes use uint32_t so that this also holds on the 64-bit host (see REDU_AVR_LONG below).
uint32_t millis(void);
uint32_t micros(void);
void delay(uint32_t ms);
void delayMicroseconds(unsigned int us);
uint32_t pulseIn(uint8_t pin, uint8_t state, uint32_t timeout = 1000000UL);

void tone(uint8_t pin, unsigned int frequency, uint32_t duration = 0);
void noTone(uint8_t pin);

long map(long, long, long, long, long);

#define DEC 10
#define HEX 16
#define OCT 8
#define BIN 2

class Print {
public:
  virtual ~Print() {}
  virtual size_t write(uint8_t) = 0;
  size_t write(const char *str);

  size_t print(const __FlashStringHelper *);
  size_t print(const String &);
  size_t print(const char[]);
  size_t print(char);
  size_t print(unsigned char, int = DEC);
  size_t print(int, int = DEC);
  size_t print(unsigned int, int = DEC);
  size_t print(long, int = DEC);
  size_t print(unsigned long, int = DEC);
  size_t print(double, int = 2);

  size_t println(const __FlashStringHelper *);
  size_t println(const String &s);
  size_t println(const char[]);
  size_t println(char);
  size_t println(unsigned char, int = DEC);
  size_t println(int, int = DEC);
  size_t println(unsigned int, int = DEC);
  size_t println(long, int = DEC);
  size_t println(unsigned long, int = DEC);
  size_t println(double, int = 2);
  size_t println(void);

protected:
  // harness hook: called with the numeric value when a whole number was printed
  virtual void mock_numeric(double) {}
  size_t printNumber(unsigned long, uint8_t);
  size_t printFloat(double, uint8_t);
};

class Stream : public Print {
public:
  virtual int available() = 0;
  virtual int read() = 0;
  String readStringUntil(char terminator);
  String readString();
};

class HardwareSerial : public Stream {
public:
  void begin(unsigned long baud);
  void end();
  virtual int available();
  virtual int read();
  virtual size_t write(uint8_t);
  using Print::write;
  operator bool() { return true; }

protected:
  virtual void mock_numeric(double);
};

extern HardwareSerial Serial;

void setup(void);
void loop(void);


// Sketch translation units are compiled with -DREDU_AVR_LONG: from here on (after every prototype of this header, whose
// types are shared with runtime.cpp) `long` means a 32-bit integer, as on the AVR - `unsigned long now = millis()` and
// arithmetic on such variables wrap at 2^32 exactly like on the board.
#ifdef REDU_AVR_LONG
#define long int
#endif

#endif
