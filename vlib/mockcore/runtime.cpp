// Mock Arduino runtime: event log, scripted inputs (tapes), virtual clock, heap sampling,
// logical step budget, String/Print/Serial implementations, Servo and LCD models, main().
//
// Compiled separately from the sketch (normal flags, libstdc++ allowed here).  Configuration
// comes from the environment so that global constructors in the sketch may already call in:
//   REDU_LOG     path of the event log (default: stdout)
//   REDU_TAPES   path of the input tape file ("D|A|P|S <pin> v v v ...", S = serial input line)
//   REDU_PASSES  number of loop() passes (default 3)
//   REDU_T0_MS   initial value of the millisecond clock (default 0)
//   REDU_BUDGET  logical step budget (sketch basic blocks), default 50e6
//
// Event line:  <virtual micros> \t KIND \t field \t field ...

#include <cstdio>
#include <cstdarg>
#include <cstdint>
#include <cstring>
#include <cstdlib>
#include <cmath>
#include <map>
#include <string>
#include <vector>
#include <unistd.h>

#include "Arduino.h"
#include "Wire.h"
#include "libs/Servo/Servo.h"
#include "libs/LiquidCrystal/LiquidCrystal.h"
#include "libs/LiquidCrystal_I2C/LiquidCrystal_I2C.h"

#undef min
#undef max
#undef abs
#undef round
#undef constrain

extern "C" size_t __sanitizer_get_current_allocated_bytes(void) __attribute__((weak));

// ------------------------------------------------------------------------------------------
// runtime state (lazy singleton: sketch globals are constructed before main)

struct Tape {
  std::vector<long> values;
  size_t pos = 0;
  bool has = false;
  long next() {
    if (values.empty()) return 0;
    if (pos < values.size()) return values[pos++];
    return values.back();
  }
};

struct MockLcdCore {
  int id;
  const char *kind;
  int cols = 0, rows = 0;
  int cur_col = 0, cur_row = 0;
  bool begun = false;
  bool display_on = true;
  bool backlight_on = false;
  std::vector<std::string> cells;
  uint8_t glyphs[8][8];
  bool glyph_set[8];
  // pending aggregated write
  bool pend = false;
  int pend_col = 0, pend_row = 0;
  std::string pend_text;
};

struct Runtime {
  FILE *log = nullptr;
  uint64_t now_us = 0;
  long passes = 3;
  uint64_t budget = 50000000ULL;
  uint64_t steps = 0;
  std::map<int, Tape> dtape, atape, ptape;
  std::vector<std::string> serial_in;
  size_t serial_in_pos = 0;
  std::string serial_pending;  // unread bytes of the current input line
  int pin_mode[256];
  int pin_level[256];
  std::vector<MockLcdCore *> lcds;
  int servo_count = 0;
  // serial line assembly
  std::string line;
  int line_numeric = 0;
  int line_other = 0;
  double line_value = 0;
  bool in_event = false;
};

static Runtime *g_rt = nullptr;

static Runtime &rt() {
  if (g_rt) return *g_rt;
  Runtime *r = new Runtime();
  g_rt = r;
  for (int i = 0; i < 256; i++) r->pin_mode[i] = r->pin_level[i] = -1;
  r->line.reserve(8192);
  const char *p = getenv("REDU_LOG");
  r->log = (p && *p) ? fopen(p, "w") : stdout;
  if (!r->log) r->log = stdout;
  setvbuf(r->log, nullptr, _IOLBF, 0);
  if ((p = getenv("REDU_PASSES"))) r->passes = atol(p);
  if ((p = getenv("REDU_T0_MS"))) r->now_us = (uint64_t)atoll(p) * 1000ULL;
  if ((p = getenv("REDU_BUDGET"))) r->budget = (uint64_t)atoll(p);
  if ((p = getenv("REDU_TAPES")) && *p) {
    FILE *f = fopen(p, "r");
    if (f) {
      char *lineptr = nullptr;
      size_t cap = 0;
      while (getline(&lineptr, &cap, f) > 0) {
        char kind = lineptr[0];
        if (kind == 'S') {
          std::string s(lineptr + 1);
          while (!s.empty() && (s.back() == '\n' || s.back() == '\r')) s.pop_back();
          if (!s.empty() && s[0] == ' ') s.erase(0, 1);
          r->serial_in.push_back(s);
          continue;
        }
        char *tok = strtok(lineptr + 1, " \t\r\n");
        if (!tok) continue;
        int pin = atoi(tok);
        Tape *t = kind == 'D' ? &r->dtape[pin] : kind == 'A' ? &r->atape[pin] : kind == 'P' ? &r->ptape[pin] : nullptr;
        if (!t) continue;
        t->has = true;
        while ((tok = strtok(nullptr, " \t\r\n"))) t->values.push_back(atol(tok));
      }
      free(lineptr);
      fclose(f);
    }
  }
  return *r;
}

static std::string esc(const std::string &s) {
  std::string out;
  for (unsigned char c : s) {
    if (c == '\\') out += "\\\\";
    else if (c == '\n') out += "\\n";
    else if (c == '\t') out += "\\t";
    else if (c == '\r') out += "\\r";
    else if (c < 0x20 || c >= 0x7f) {
      char b[8];
      snprintf(b, sizeof b, "\\x%02x", c);
      out += b;
    } else out += (char)c;
  }
  return out;
}

static void lcd_flush_all();

static void ev(const char *kind, const char *fmt, ...) {
  Runtime &r = rt();
  if (!r.in_event) {
    r.in_event = true;
    lcd_flush_all();
    r.in_event = false;
  }
  fprintf(r.log, "%llu\t%s", (unsigned long long)r.now_us, kind);
  if (fmt && *fmt) {
    fputc('\t', r.log);
    va_list ap;
    va_start(ap, fmt);
    vfprintf(r.log, fmt, ap);
    va_end(ap);
  }
  fputc('\n', r.log);
}

static void lcd_snapshots();

// ------------------------------------------------------------------------------------------
// logical step budget: the sketch TU is built with -fsanitize-coverage=trace-pc-guard

static std::vector<uint8_t> *g_seen = nullptr;
static uint64_t g_distinct = 0;

extern "C" void __sanitizer_cov_trace_pc_guard_init(uint32_t *start, uint32_t *stop) {
  static uint32_t n = 0;
  if (start == stop || *start) return;
  for (uint32_t *x = start; x < stop; x++) *x = ++n;
  if (!g_seen) g_seen = new std::vector<uint8_t>();
  g_seen->resize((size_t)n + 16, 0);
}

extern "C" void __sanitizer_cov_trace_pc_guard(uint32_t *guard) {
  Runtime &r = rt();
  uint32_t id = *guard;
  if (g_seen && id < g_seen->size() && !(*g_seen)[id]) {
    (*g_seen)[id] = 1;
    ++g_distinct;
  }
  if (++r.steps > r.budget) {
    ev("STEPBUDGET", "%llu", (unsigned long long)r.steps);
    fflush(r.log);
    _exit(97);
  }
}

// ------------------------------------------------------------------------------------------
// pins, time, tone

void pinMode(uint8_t pin, uint8_t mode) {
  Runtime &r = rt();
  r.pin_mode[pin] = mode;
  ev("PM", "%d\t%s", pin, mode == OUTPUT ? "OUTPUT" : mode == INPUT_PULLUP ? "INPUT_PULLUP" : mode == INPUT ? "INPUT" : "?");
}

void digitalWrite(uint8_t pin, uint8_t val) {
  Runtime &r = rt();
  r.pin_level[pin] = val ? 1 : 0;
  ev("DW", "%d\t%d", pin, val ? 1 : 0);
}

int digitalRead(uint8_t pin) {
  Runtime &r = rt();
  int v;
  auto it = r.dtape.find(pin);
  if (it != r.dtape.end() && it->second.has) v = it->second.next() ? 1 : 0;
  else {
    if (r.pin_level[pin] >= 0) v = r.pin_level[pin];
    else v = (r.pin_mode[pin] == INPUT_PULLUP) ? 1 : 0;
  }
  ev("DR", "%d\t%d", pin, v);
  return v;
}

int analogRead(uint8_t pin) {
  Runtime &r = rt();
  int p = pin;
  if (p < 14 && p <= 7) p = pin + 14;  // analogRead(0) == analogRead(A0) on the Uno
  long v = 0;
  auto it = r.atape.find(p);
  if (it != r.atape.end() && it->second.has) v = it->second.next();
  ev("AR", "%d\t%ld", p, v);
  return (int)v;
}

void analogWrite(uint8_t pin, int val) {
  ev("AW", "%d\t%d", pin, val);
}

uint32_t millis(void) { return (uint32_t)(rt().now_us / 1000ULL); }   // wraps at 2^32 ms like the AVR's 32-bit counter
uint32_t micros(void) { return (uint32_t)(rt().now_us); }

void delay(uint32_t ms) {
  Runtime &r = rt();
  ev("DELAY", "%lu", (unsigned long)ms);
  r.now_us += (uint64_t)ms * 1000ULL;
}

void delayMicroseconds(unsigned int us) {
  Runtime &r = rt();
  ev("DELAYUS", "%u", us);
  r.now_us += us;
}

uint32_t pulseIn(uint8_t pin, uint8_t state, uint32_t timeout) {
  Runtime &r = rt();
  long v = 0;
  auto it = r.ptape.find(pin);
  if (it != r.ptape.end() && it->second.has) v = it->second.next();
  if (v < 0) v = 0;
  if ((unsigned long)v > timeout) v = 0;
  ev("PULSE", "%d\t%d\t%lu\t%ld", pin, state, (unsigned long)timeout, v);
  r.now_us += v > 0 ? (uint64_t)v : (uint64_t)timeout;
  return (uint32_t)v;
}

void tone(uint8_t pin, unsigned int frequency, uint32_t duration) {
  ev("TONE", "%d\t%u\t%lu", pin, frequency, (unsigned long)duration);
}

void noTone(uint8_t pin) { ev("NOTONE", "%d", pin); }

long map(long x, long in_min, long in_max, long out_min, long out_max) {
  if (in_max == in_min) {
    ev("MAPDIV0", "");
    return 0;
  }
  return (x - in_min) * (out_max - out_min) / (in_max - in_min) + out_min;
}

// ------------------------------------------------------------------------------------------
// String (port of the AVR core's WString.cpp)

String::String(const char *cstr) {
  init();
  if (cstr) copy(cstr, strlen(cstr));
}
String::String(const String &value) {
  init();
  *this = value;
}
String::String(const __FlashStringHelper *pstr) {
  init();
  *this = pstr;
}
String::String(String &&rval) {
  init();
  move(rval);
}
String::String(StringSumHelper &&rval) {
  init();
  move(rval);
}
String::String(char c) {
  init();
  char buf[2];
  buf[0] = c;
  buf[1] = 0;
  *this = buf;
}
static void utoa_base(unsigned long v, char *out, int base, bool neg) {
  char tmp[70];
  int n = 0;
  if (base < 2) base = 10;
  do {
    int d = (int)(v % (unsigned long)base);
    tmp[n++] = (char)(d < 10 ? '0' + d : 'a' + d - 10);
    v /= (unsigned long)base;
  } while (v);
  int k = 0;
  if (neg) out[k++] = '-';
  while (n) out[k++] = tmp[--n];
  out[k] = 0;
}
String::String(unsigned char value, unsigned char base) {
  init();
  char buf[72];
  utoa_base(value, buf, base, false);
  *this = buf;
}
String::String(int value, unsigned char base) {
  init();
  char buf[72];
  if (base == 10 && value < 0) utoa_base((unsigned long)(-(long)value), buf, 10, true);
  else utoa_base((unsigned long)(unsigned int)value, buf, base, false);
  *this = buf;
}
String::String(unsigned int value, unsigned char base) {
  init();
  char buf[72];
  utoa_base(value, buf, base, false);
  *this = buf;
}
String::String(long value, unsigned char base) {
  init();
  char buf[72];
  if (base == 10 && value < 0) utoa_base(0UL - (unsigned long)value, buf, 10, true);
  else utoa_base((unsigned long)value, buf, base, false);
  *this = buf;
}
String::String(unsigned long value, unsigned char base) {
  init();
  char buf[72];
  utoa_base(value, buf, base, false);
  *this = buf;
}
static void dtostrf_mock(double v, int dp, char *buf, size_t n) {
  if (std::isnan(v)) snprintf(buf, n, "NAN");
  else if (std::isinf(v)) snprintf(buf, n, v < 0 ? "-INF" : "INF");
  else snprintf(buf, n, "%.*f", dp, v);
}
String::String(float value, unsigned char decimalPlaces) {
  init();
  char buf[400];
  dtostrf_mock(value, decimalPlaces, buf, sizeof buf);
  *this = buf;
}
String::String(double value, unsigned char decimalPlaces) {
  init();
  char buf[400];
  dtostrf_mock(value, decimalPlaces, buf, sizeof buf);
  *this = buf;
}
String::~String() {
  if (buffer) free(buffer);
}
inline void String::init(void) {
  buffer = NULL;
  capacity = 0;
  len = 0;
}
void String::invalidate(void) {
  if (buffer) free(buffer);
  buffer = NULL;
  capacity = len = 0;
}
unsigned char String::reserve(unsigned int size) {
  if (buffer && capacity >= size) return 1;
  if (changeBuffer(size)) {
    if (len == 0) buffer[0] = 0;
    return 1;
  }
  return 0;
}
unsigned char String::changeBuffer(unsigned int maxStrLen) {
  char *newbuffer = (char *)realloc(buffer, maxStrLen + 1);
  if (newbuffer) {
    buffer = newbuffer;
    capacity = maxStrLen;
    return 1;
  }
  return 0;
}
String &String::copy(const char *cstr, unsigned int length) {
  if (!reserve(length)) {
    invalidate();
    return *this;
  }
  len = length;
  memcpy(buffer, cstr, length);
  buffer[length] = 0;
  return *this;
}
void String::move(String &rhs) {
  if (buffer) {
    if (rhs && capacity >= rhs.len) {
      strcpy(buffer, rhs.buffer);
      len = rhs.len;
      rhs.len = 0;
      return;
    } else {
      free(buffer);
    }
  }
  buffer = rhs.buffer;
  capacity = rhs.capacity;
  len = rhs.len;
  rhs.buffer = NULL;
  rhs.capacity = 0;
  rhs.len = 0;
}
String &String::operator=(const String &rhs) {
  if (this == &rhs) return *this;
  if (rhs.buffer) copy(rhs.buffer, rhs.len);
  else invalidate();
  return *this;
}
String &String::operator=(String &&rval) {
  if (this != &rval) move(rval);
  return *this;
}
String &String::operator=(StringSumHelper &&rval) {
  if (this != &rval) move(rval);
  return *this;
}
String &String::operator=(const char *cstr) {
  if (cstr) copy(cstr, strlen(cstr));
  else invalidate();
  return *this;
}
String &String::operator=(const __FlashStringHelper *pstr) {
  const char *c = reinterpret_cast<const char *>(pstr);
  if (c) copy(c, strlen(c));
  else invalidate();
  return *this;
}
unsigned char String::concat(const String &s) { return concat(s.buffer, s.len); }
unsigned char String::concat(const char *cstr, unsigned int length) {
  unsigned int newlen = len + length;
  if (!cstr) return 0;
  if (length == 0) return 1;
  if (!reserve(newlen)) return 0;
  memcpy(buffer + len, cstr, length);
  buffer[newlen] = 0;
  len = newlen;
  return 1;
}
unsigned char String::concat(const char *cstr) {
  if (!cstr) return 0;
  return concat(cstr, strlen(cstr));
}
unsigned char String::concat(char c) {
  char buf[2];
  buf[0] = c;
  buf[1] = 0;
  return concat(buf, 1);
}
unsigned char String::concat(unsigned char num) {
  char buf[72];
  utoa_base(num, buf, 10, false);
  return concat(buf, strlen(buf));
}
unsigned char String::concat(int num) {
  String t(num);
  return concat(t);
}
unsigned char String::concat(unsigned int num) {
  String t(num);
  return concat(t);
}
unsigned char String::concat(long num) {
  String t(num);
  return concat(t);
}
unsigned char String::concat(unsigned long num) {
  String t(num);
  return concat(t);
}
unsigned char String::concat(float num) {
  String t(num);
  return concat(t);
}
unsigned char String::concat(double num) {
  String t(num);
  return concat(t);
}
unsigned char String::concat(const __FlashStringHelper *str) {
  return concat(reinterpret_cast<const char *>(str));
}

StringSumHelper &operator+(const StringSumHelper &lhs, const String &rhs) {
  StringSumHelper &a = const_cast<StringSumHelper &>(lhs);
  if (!a.concat(rhs.buffer, rhs.len)) a.invalidate();
  return a;
}
StringSumHelper &operator+(const StringSumHelper &lhs, const char *cstr) {
  StringSumHelper &a = const_cast<StringSumHelper &>(lhs);
  if (!cstr || !a.concat(cstr, strlen(cstr))) a.invalidate();
  return a;
}
#define SUM_OP(T)                                                   \
  StringSumHelper &operator+(const StringSumHelper &lhs, T v) {     \
    StringSumHelper &a = const_cast<StringSumHelper &>(lhs);        \
    if (!a.concat(v)) a.invalidate();                               \
    return a;                                                       \
  }
SUM_OP(char)
SUM_OP(unsigned char)
SUM_OP(int)
SUM_OP(unsigned int)
SUM_OP(long)
SUM_OP(unsigned long)
SUM_OP(float)
SUM_OP(double)
SUM_OP(const __FlashStringHelper *)

int String::compareTo(const String &s) const {
  if (!buffer || !s.buffer) {
    if (s.buffer && s.len > 0) return 0 - *(unsigned char *)s.buffer;
    if (buffer && len > 0) return *(unsigned char *)buffer;
    return 0;
  }
  return strcmp(buffer, s.buffer);
}
unsigned char String::equals(const String &s2) const { return (len == s2.len && compareTo(s2) == 0); }
unsigned char String::equals(const char *cstr) const {
  if (len == 0) return (cstr == NULL || *cstr == 0);
  if (cstr == NULL) return buffer[0] == 0;
  return strcmp(buffer, cstr) == 0;
}
unsigned char String::operator<(const String &rhs) const { return compareTo(rhs) < 0; }
unsigned char String::operator>(const String &rhs) const { return compareTo(rhs) > 0; }
unsigned char String::operator<=(const String &rhs) const { return compareTo(rhs) <= 0; }
unsigned char String::operator>=(const String &rhs) const { return compareTo(rhs) >= 0; }
unsigned char String::equalsIgnoreCase(const String &s2) const {
  if (this == &s2) return 1;
  if (len != s2.len) return 0;
  if (len == 0) return 1;
  return strcasecmp(buffer, s2.buffer) == 0;
}
unsigned char String::startsWith(const String &s2) const {
  if (len < s2.len || !buffer || !s2.buffer) return 0;
  return strncmp(buffer, s2.buffer, s2.len) == 0;
}
unsigned char String::endsWith(const String &s2) const {
  if (len < s2.len || !buffer || !s2.buffer) return 0;
  return strcmp(&buffer[len - s2.len], s2.buffer) == 0;
}
char String::charAt(unsigned int loc) const { return operator[](loc); }
void String::setCharAt(unsigned int loc, char c) {
  if (loc < len) buffer[loc] = c;
}
char &String::operator[](unsigned int index) {
  static char dummy_writable_char;
  if (index >= len || !buffer) {
    ev("STR_OOB", "%u\t%u", index, len);
    dummy_writable_char = 0;
    return dummy_writable_char;
  }
  return buffer[index];
}
char String::operator[](unsigned int index) const {
  if (index >= len || !buffer) {
    ev("STR_OOB", "%u\t%u", index, len);
    return 0;
  }
  return buffer[index];
}
int String::indexOf(char c) const {
  if (!buffer) return -1;
  const char *t = strchr(buffer, c);
  return t ? (int)(t - buffer) : -1;
}
int String::indexOf(const String &s2) const {
  if (!buffer || !s2.buffer) return -1;
  const char *t = strstr(buffer, s2.buffer);
  return t ? (int)(t - buffer) : -1;
}
String String::substring(unsigned int left, unsigned int right) const {
  if (left > right) {
    unsigned int temp = right;
    right = left;
    left = temp;
  }
  String out;
  if (left >= len) return out;
  if (right > len) right = len;
  char temp = buffer[right];
  buffer[right] = '\0';
  out = buffer + left;
  buffer[right] = temp;
  return out;
}
void String::toLowerCase(void) {
  if (!buffer) return;
  for (char *p = buffer; *p; p++) *p = (char)tolower(*p);
}
void String::toUpperCase(void) {
  if (!buffer) return;
  for (char *p = buffer; *p; p++) *p = (char)toupper(*p);
}
void String::trim(void) {
  if (!buffer || len == 0) return;
  char *begin = buffer;
  while (isspace(*begin)) begin++;
  char *end = buffer + len - 1;
  while (isspace(*end) && end >= begin) end--;
  len = (unsigned int)(end + 1 - begin);
  if (begin > buffer) memmove(buffer, begin, len);
  buffer[len] = 0;
}
long String::toInt(void) const { return buffer ? atol(buffer) : 0; }
float String::toFloat(void) const { return float(toDouble()); }
double String::toDouble(void) const { return buffer ? atof(buffer) : 0; }

// ------------------------------------------------------------------------------------------
// Print (port of the AVR core's Print.cpp) with a numeric hook for the harness

static int g_print_depth = 0;  // > 0 while digits of a number are being written
struct NumScope {
  NumScope() { ++g_print_depth; }
  ~NumScope() { --g_print_depth; }
};

size_t Print::write(const char *str) {
  if (!str) return 0;
  size_t n = 0;
  while (*str) n += write((uint8_t)*str++);
  return n;
}
size_t Print::print(const __FlashStringHelper *s) { return write(reinterpret_cast<const char *>(s)); }
size_t Print::print(const String &s) { return write(s.c_str() ? s.c_str() : ""); }
size_t Print::print(const char str[]) { return write(str); }
size_t Print::print(char c) { return write((uint8_t)c); }
size_t Print::print(unsigned char b, int base) { return print((unsigned long)b, base); }
size_t Print::print(int n, int base) { return print((long)n, base); }
size_t Print::print(unsigned int n, int base) { return print((unsigned long)n, base); }
size_t Print::print(long n, int base) {
  if (base == 0) return write((uint8_t)n);
  bool top = g_print_depth == 0;
  if (top) mock_numeric((double)n);
  NumScope scope;
  if (base == 10) {
    if (n < 0) {
      size_t t = write((uint8_t)'-');
      return printNumber(0UL - (unsigned long)n, 10) + t;
    }
    return printNumber((unsigned long)n, 10);
  }
  return printNumber((unsigned long)n, (uint8_t)base);
}
size_t Print::print(unsigned long n, int base) {
  if (base == 0) return write((uint8_t)n);
  bool top = g_print_depth == 0;
  if (top) mock_numeric((double)n);
  NumScope scope;
  return printNumber(n, (uint8_t)base);
}
size_t Print::print(double n, int digits) {
  bool top = g_print_depth == 0;
  if (top) mock_numeric(n);
  NumScope scope;
  return printFloat(n, (uint8_t)digits);
}
size_t Print::println(void) { return write("\r\n"); }
#define PRINTLN1(T)                  \
  size_t Print::println(T v) {       \
    size_t n = print(v);             \
    n += println();                  \
    return n;                        \
  }
#define PRINTLN2(T)                       \
  size_t Print::println(T v, int b) {     \
    size_t n = print(v, b);               \
    n += println();                       \
    return n;                             \
  }
PRINTLN1(const __FlashStringHelper *)
PRINTLN1(const String &)
PRINTLN1(const char *)
PRINTLN1(char)
PRINTLN2(unsigned char)
PRINTLN2(int)
PRINTLN2(unsigned int)
PRINTLN2(long)
PRINTLN2(unsigned long)
PRINTLN2(double)

size_t Print::printNumber(unsigned long n, uint8_t base) {
  char buf[8 * sizeof(long) + 1];
  char *str = &buf[sizeof(buf) - 1];
  *str = '\0';
  if (base < 2) base = 10;
  do {
    char c = (char)(n % base);
    n /= base;
    *--str = (char)(c < 10 ? c + '0' : c + 'A' - 10);
  } while (n);
  return write(str);
}
size_t Print::printFloat(double number, uint8_t digits) {
  size_t n = 0;
  if (std::isnan(number)) return print("nan");
  if (std::isinf(number)) return print("inf");
  if (number > 4294967040.0) return print("ovf");
  if (number < -4294967040.0) return print("ovf");
  if (number < 0.0) {
    n += print('-');
    number = -number;
  }
  double rounding = 0.5;
  for (uint8_t i = 0; i < digits; ++i) rounding /= 10.0;
  number += rounding;
  unsigned long int_part = (unsigned long)number;
  double remainder = number - (double)int_part;
  n += print(int_part);
  if (digits > 0) n += print('.');
  while (digits-- > 0) {
    remainder *= 10.0;
    unsigned int toPrint = (unsigned int)(remainder);
    n += print(toPrint);
    remainder -= toPrint;
  }
  return n;
}

// ------------------------------------------------------------------------------------------
// Serial

HardwareSerial Serial;
static bool g_serial_begun = false;

void HardwareSerial::begin(unsigned long baud) {
  g_serial_begun = true;
  ev("SBEGIN", "%lu", baud);
}
void HardwareSerial::end() { ev("SEND", ""); }
void HardwareSerial::mock_numeric(double v) {
  Runtime &r = rt();
  r.line_numeric++;
  r.line_value = v;
}
size_t HardwareSerial::write(uint8_t c) {
  Runtime &r = rt();
  if (c == '\r') return 1;
  if (c == '\n') {
    bool marker = !r.line.empty() && r.line[0] == '@';
    std::string text = esc(r.line);
    if (r.line_numeric == 1 && r.line_other == 0) {
      char nb[64];
      snprintf(nb, sizeof nb, "%.9g", r.line_value);
      ev("SER", "%s\t%s%s", text.c_str(), nb, g_serial_begun ? "" : "\tNOBEGIN");
    } else {
      ev("SER", "%s\t-%s", text.c_str(), g_serial_begun ? "" : "\tNOBEGIN");
    }
    r.line.clear();
    r.line_numeric = r.line_other = 0;
    if (marker) lcd_snapshots();
    return 1;
  }
  if (g_print_depth == 0) r.line_other++;
  r.line.push_back((char)c);
  return 1;
}
int HardwareSerial::available() {
  Runtime &r = rt();
  if (!r.serial_pending.empty()) return (int)r.serial_pending.size();
  return r.serial_in_pos < r.serial_in.size() ? (int)r.serial_in[r.serial_in_pos].size() + 1 : 0;
}
int HardwareSerial::read() {
  Runtime &r = rt();
  if (r.serial_pending.empty()) {
    if (r.serial_in_pos >= r.serial_in.size()) return -1;
    r.serial_pending = r.serial_in[r.serial_in_pos++] + "\n";
  }
  int c = (unsigned char)r.serial_pending[0];
  r.serial_pending.erase(0, 1);
  return c;
}
String Stream::readStringUntil(char terminator) {
  String ret;
  int c = read();
  while (c >= 0 && c != terminator) {
    ret += (char)c;
    c = read();
  }
  ev("SREAD", "%s", esc(ret.c_str() ? ret.c_str() : "").c_str());
  return ret;
}
String Stream::readString() {
  String ret;
  int c = read();
  while (c >= 0) {
    ret += (char)c;
    c = read();
  }
  return ret;
}

// ------------------------------------------------------------------------------------------
// Wire, Servo

TwoWire Wire;
void TwoWire::begin() { ev("WIRE_BEGIN", ""); }
void TwoWire::setClock(uint32_t) {}

Servo::Servo() : mock_pin(-1), mock_min(544), mock_max(2400), mock_us(1500) { mock_id = rt().servo_count++; }
uint8_t Servo::attach(int pin) { return attach(pin, 544, 2400); }
uint8_t Servo::attach(int pin, int mn, int mx) {
  mock_pin = pin;
  mock_min = mn;
  mock_max = mx;
  ev("SERVO_ATTACH", "%d\t%d\t%d\t%d", mock_id, pin, mn, mx);
  return (uint8_t)mock_id;
}
void Servo::detach() {
  ev("SERVO_DETACH", "%d\t%d", mock_id, mock_pin);
  mock_pin = -1;
}
void Servo::write(int value) {
  ev("SERVO_WRITE", "%d\t%d\t%d", mock_id, mock_pin, value);
  if (value < 544) {
    if (value < 0) value = 0;
    if (value > 180) value = 180;
    mock_us = mock_min + (int)((long)value * (mock_max - mock_min) / 180);
  } else mock_us = value;
}
void Servo::writeMicroseconds(int value) {
  ev("SERVO_WRITEUS", "%d\t%d\t%d", mock_id, mock_pin, value);
  mock_us = value;
}
int Servo::read() { return (int)((long)(mock_us - mock_min) * 180 / (mock_max - mock_min)); }
int Servo::readMicroseconds() { return mock_us; }
bool Servo::attached() { return mock_pin >= 0; }

// ------------------------------------------------------------------------------------------
// LCD model: cols x rows cell matrix, cursor, flags, CGRAM.  A character written at a column
// >= cols or a row >= rows is reported (LCD_OOB) instead of silently wrapping through DDRAM.

static MockLcdCore *lcd_new(const char *kind) {
  Runtime &r = rt();
  MockLcdCore *m = new MockLcdCore();
  m->id = (int)r.lcds.size();
  m->kind = kind;
  memset(m->glyphs, 0, sizeof m->glyphs);
  memset(m->glyph_set, 0, sizeof m->glyph_set);
  m->pend_text.reserve(512);
  r.lcds.push_back(m);
  return m;
}
static void lcd_flush(MockLcdCore *m) {
  if (!m->pend) return;
  m->pend = false;
  std::string t = esc(m->pend_text);
  m->pend_text.clear();
  ev("LCD", "%d\tW\t%d\t%d\t%s", m->id, m->pend_col, m->pend_row, t.c_str());
}
static void lcd_flush_all() {
  if (!g_rt) return;
  for (MockLcdCore *m : g_rt->lcds) lcd_flush(m);
}
static void lcd_resize(MockLcdCore *m, int cols, int rows) {
  m->cols = cols;
  m->rows = rows;
  m->cells.assign((size_t)(rows > 0 ? rows : 0), std::string((size_t)(cols > 0 ? cols : 0), ' '));
  m->cur_col = m->cur_row = 0;
}
static void lcd_begin(MockLcdCore *m, int cols, int rows, const char *how) {
  lcd_flush(m);
  lcd_resize(m, cols, rows);
  m->begun = true;
  m->display_on = true;
  ev("LCD", "%d\tBEGIN\t%s\t%s\t%d\t%d", m->id, m->kind, how, cols, rows);
}
static void lcd_clear(MockLcdCore *m) {
  lcd_flush(m);
  for (auto &row : m->cells) row.assign(row.size(), ' ');
  m->cur_col = m->cur_row = 0;
  ev("LCD", "%d\tCLEAR%s", m->id, m->begun ? "" : "\tNOBEGIN");
}
static void lcd_set_cursor(MockLcdCore *m, int col, int row) {
  lcd_flush(m);
  if (row >= m->rows) {
    ev("LCD", "%d\tROWCLAMP\t%d\t%d", m->id, row, m->rows);
    row = m->rows > 0 ? m->rows - 1 : 0;
  }
  m->cur_col = col;
  m->cur_row = row;
}
static size_t lcd_write(MockLcdCore *m, uint8_t c) {
  if (!m->begun) {
    ev("LCD", "%d\tWRITE_NOBEGIN", m->id);
  }
  if (m->cur_col < 0 || m->cur_col >= m->cols || m->cur_row < 0 || m->cur_row >= m->rows) {
    lcd_flush(m);
    ev("LCD", "%d\tOOB\t%d\t%d\t%d", m->id, m->cur_col, m->cur_row, (int)c);
    m->cur_col++;
    return 1;
  }
  if (m->pend && (m->pend_row != m->cur_row || m->pend_col + (int)m->pend_text.size() != m->cur_col)) lcd_flush(m);
  if (!m->pend) {
    m->pend = true;
    m->pend_col = m->cur_col;
    m->pend_row = m->cur_row;
  }
  m->pend_text.push_back((char)c);
  m->cells[(size_t)m->cur_row][(size_t)m->cur_col] = (char)c;
  m->cur_col++;
  return 1;
}
static void lcd_glyph(MockLcdCore *m, uint8_t slot, uint8_t rows[]) {
  lcd_flush(m);
  slot &= 0x7;
  for (int i = 0; i < 8; i++) m->glyphs[slot][i] = rows[i];
  m->glyph_set[slot] = true;
  ev("LCD", "%d\tGLYPH\t%d\t%d,%d,%d,%d,%d,%d,%d,%d", m->id, slot, rows[0], rows[1], rows[2], rows[3], rows[4],
     rows[5], rows[6], rows[7]);
}
static void lcd_flag(MockLcdCore *m, const char *what, int v) {
  lcd_flush(m);
  ev("LCD", "%d\t%s\t%d", m->id, what, v);
}
static void lcd_snapshots() {
  Runtime &r = rt();
  for (MockLcdCore *m : r.lcds) {
    lcd_flush(m);
    std::string rows;
    for (size_t i = 0; i < m->cells.size(); i++) {
      if (i) rows += "\t";
      rows += esc(m->cells[i]);
    }
    ev("LCDSNAP", "%d\t%d\t%d\t%d\t%d\t%s", m->id, m->cols, m->rows, m->display_on ? 1 : 0, m->backlight_on ? 1 : 0,
       rows.c_str());
  }
}

LiquidCrystal::LiquidCrystal(uint8_t rs, uint8_t enable, uint8_t d0, uint8_t d1, uint8_t d2, uint8_t d3) {
  mock = lcd_new("parallel");
  ev("LCD", "%d\tCTOR\tparallel\t%d\t-1\t%d\t%d\t%d\t%d\t%d", mock->id, rs, enable, d0, d1, d2, d3);
  // the real constructor calls begin(16, 1)
  lcd_resize(mock, 16, 1);
}
LiquidCrystal::LiquidCrystal(uint8_t rs, uint8_t rw, uint8_t enable, uint8_t d0, uint8_t d1, uint8_t d2, uint8_t d3) {
  mock = lcd_new("parallel");
  ev("LCD", "%d\tCTOR\tparallel\t%d\t%d\t%d\t%d\t%d\t%d\t%d", mock->id, rs, rw, enable, d0, d1, d2, d3);
  lcd_resize(mock, 16, 1);
}
void LiquidCrystal::begin(uint8_t cols, uint8_t rows, uint8_t) { lcd_begin(mock, cols, rows, "begin"); }
void LiquidCrystal::clear() { lcd_clear(mock); }
void LiquidCrystal::home() { lcd_set_cursor(mock, 0, 0); }
void LiquidCrystal::noDisplay() { mock->display_on = false; lcd_flag(mock, "DISPLAY", 0); }
void LiquidCrystal::display() { mock->display_on = true; lcd_flag(mock, "DISPLAY", 1); }
void LiquidCrystal::noBlink() {}
void LiquidCrystal::blink() {}
void LiquidCrystal::noCursor() {}
void LiquidCrystal::cursor() {}
void LiquidCrystal::scrollDisplayLeft() {}
void LiquidCrystal::scrollDisplayRight() {}
void LiquidCrystal::createChar(uint8_t slot, uint8_t rows[]) { lcd_glyph(mock, slot, rows); }
void LiquidCrystal::setCursor(uint8_t col, uint8_t row) { lcd_set_cursor(mock, col, row); }
size_t LiquidCrystal::write(uint8_t c) { return lcd_write(mock, c); }

LiquidCrystal_I2C::LiquidCrystal_I2C(uint8_t addr, uint8_t cols, uint8_t rows) {
  mock = lcd_new("i2c");
  ev("LCD", "%d\tCTOR\ti2c\t%d\t%d\t%d", mock->id, addr, cols, rows);
  lcd_resize(mock, cols, rows);
}
void LiquidCrystal_I2C::begin(uint8_t cols, uint8_t rows, uint8_t) { lcd_begin(mock, cols, rows, "begin"); }
void LiquidCrystal_I2C::init() { lcd_begin(mock, mock->cols, mock->rows, "init"); }
void LiquidCrystal_I2C::clear() { lcd_clear(mock); }
void LiquidCrystal_I2C::home() { lcd_set_cursor(mock, 0, 0); }
void LiquidCrystal_I2C::noDisplay() { mock->display_on = false; lcd_flag(mock, "DISPLAY", 0); }
void LiquidCrystal_I2C::display() { mock->display_on = true; lcd_flag(mock, "DISPLAY", 1); }
void LiquidCrystal_I2C::noBlink() {}
void LiquidCrystal_I2C::blink() {}
void LiquidCrystal_I2C::noCursor() {}
void LiquidCrystal_I2C::cursor() {}
void LiquidCrystal_I2C::noBacklight() { mock->backlight_on = false; lcd_flag(mock, "BACKLIGHT", 0); }
void LiquidCrystal_I2C::backlight() { mock->backlight_on = true; lcd_flag(mock, "BACKLIGHT", 1); }
void LiquidCrystal_I2C::createChar(uint8_t slot, uint8_t rows[]) { lcd_glyph(mock, slot, rows); }
void LiquidCrystal_I2C::setCursor(uint8_t col, uint8_t row) { lcd_set_cursor(mock, col, row); }
size_t LiquidCrystal_I2C::write(uint8_t c) { return lcd_write(mock, c); }

// ------------------------------------------------------------------------------------------
// main

static void heap_sample(long pass) {
  size_t bytes = 0;
  if (__sanitizer_get_current_allocated_bytes) bytes = __sanitizer_get_current_allocated_bytes();
  ev("HEAP", "%ld\t%zu", pass, bytes);
}

int main(int, char **) {
  Runtime &r = rt();
  ev("BEGIN", "%ld", r.passes);
  setup();
  ev("SETUP_DONE", "");
  heap_sample(-1);
  lcd_snapshots();
  for (long k = 0; k < r.passes; k++) {
    ev("PASS", "%ld", k);
    loop();
    ev("PASS_END", "%ld", k);
    heap_sample(k);
    lcd_snapshots();
  }
  if (!r.line.empty()) ev("SER_PARTIAL", "%s", esc(r.line).c_str());
  ev("END", "%llu\t%llu", (unsigned long long)r.steps, (unsigned long long)g_distinct);
  fflush(r.log);
  _exit(0);  // globals hold memory legitimately; LeakSanitizer is not the leak oracle
}
