"""Child for C11: transpile each input under an audit hook and report events/outcomes as JSON lines.
usage: python audit_child.py <inputs.json> <out.jsonl> <start_index>"""
from __future__ import annotations

import hashlib
import json
import os
import resource
import signal
import sys
import time

sys.path.insert(0, os.path.dirname(os.path.dirname(os.path.abspath(__file__))))

EVENTS = []
ARMED = [False]
INTERESTING_PREFIXES = ("open", "os.", "subprocess.", "socket.", "exec", "import", "ctypes.", "shutil.", "tempfile.",
                        "urllib.", "http.", "ftplib.", "glob.", "pathlib.", "sys.setprofile", "sys.settrace", "marshal.",
                        "pickle.", "code.", "builtins.input", "webbrowser.", "signal.", "fcntl.", "mmap.", "sqlite3.",
                        "compile", "cpython.", "pty.", "resource.", "syslog.", "winreg.")


def hook(event, args):
    if not ARMED[0]:
        return
    if event.startswith(INTERESTING_PREFIXES):
        detail = ""
        try:
            if event == "import":
                detail = str(args[0])
            elif event == "open":
                detail = f"{args[0]!s}|{args[1]!s}"
            elif event == "compile":
                detail = ""
            elif event == "exec":
                detail = getattr(args[0], "co_filename", "?")
            else:
                detail = str(args[0])[:80] if args else ""
        except Exception:  # noqa: BLE001
            detail = "?"
        EVENTS.append((event, detail))


class Timeout(BaseException):
    pass


def on_timer(signum, frame):
    raise Timeout()


def main():
    inputs = json.load(open(sys.argv[1]))
    start = int(sys.argv[3])
    from vlib.common import use_repo

    use_repo()
    from vlib.checks.C10 import module_state
    from Reduino.transpile.emitter import emit
    from Reduino.transpile.parser import parse

    from vlib.checks.C10 import interpreter_state
    interp0 = interpreter_state()
    # warm-up (lazy imports inside ast/re happen here, outside the fenced region)
    for s in ("x = 1\n", "\u00e9\u7aef = 1\n", "x = (\n", "from Reduino.Actuators import Led\nled = Led(13)\nwhile True:\n    led.toggle()\n",
              "def f(a):\n    return a\nx = f(1)\ns = f\"a{x}\"\nL = [i for i in range(3)]\n"):
        try:
            emit(parse(s))
        except Exception:  # noqa: BLE001
            pass
    sys.addaudithook(hook)
    signal.signal(signal.SIGVTALRM, on_timer)
    resource.setrlimit(resource.RLIMIT_CPU, (40, 45))
    resource.setrlimit(resource.RLIMIT_AS, (4 << 30, 4 << 30))
    out = open(sys.argv[2], "a")
    base_state = module_state()[0]
    # (the warm-up scripts are transpilations too: interpreter settings they leave changed count against the first input)
    warmup_leak = interpreter_state() != interp0
    env_before = dict(os.environ)
    for idx in range(start, len(inputs)):
        item = inputs[idx]
        text = item["text"]
        if item.get("enc") == "surrogateescape":
            text = bytes.fromhex(text).decode("utf-8", "surrogateescape")
        out.write(json.dumps({"i": idx, "phase": "start"}) + "\n")
        out.flush()
        EVENTS.clear()
        t0 = time.process_time()
        outcome = None
        exc_s = None
        signal.setitimer(signal.ITIMER_VIRTUAL, 6.0)
        ARMED[0] = True
        leak = None
        try:
            res = emit(parse(text))
            outcome = "str" if isinstance(res, str) else f"returned:{type(res).__name__}"
            if isinstance(res, str):
                # the repr of a live host object (class, builtin, bound method, memory address) inside the firmware text means
                # an attribute of a host object was looked up on behalf of the script
                import re as _re
                m = _re.search(r"<(?:class|built-in|method-wrapper|function|module|bound method|slot wrapper|attribute|member)[ '][^>\n]{0,80}>| object at 0x[0-9a-fA-F]+", res)
                if m and m.group(0) not in text:
                    leak = m.group(0)[:100]
        except Timeout:
            outcome = "timeout"
        except ValueError as exc:  # includes UnicodeError subclasses (text that cannot be source code)
            outcome = "SyntaxError" if isinstance(exc, SyntaxError) else "ValueError"
            exc_s = f"{type(exc).__name__}: {exc}"[:120]
        except SyntaxError as exc:
            outcome = "SyntaxError"
            exc_s = str(exc)[:120]
        except BaseException as exc:  # noqa: BLE001
            outcome = f"exc:{type(exc).__name__}"
            exc_s = str(exc)[:160]
        finally:
            ARMED[0] = False
            signal.setitimer(signal.ITIMER_VIRTUAL, 0)
        cpu = time.process_time() - t0
        canary = item.get("canary")
        canary_hit = bool(canary and os.path.exists(canary))
        if canary_hit:
            os.unlink(canary)
        env_changed = dict(os.environ) != env_before
        if env_changed:
            os.environ.clear()
            os.environ.update(env_before)
        st = module_state()[0]
        state_changed = st != base_state or warmup_leak
        warmup_leak = False
        base_state = st
        # CPython's own SyntaxError machinery tries to read the pseudo file "<unknown>" to show the offending line
        bad = [e for e in EVENTS if e[0] != "compile" and not (e[0] == "open" and e[1].split("|")[0] in ("<unknown>", "<string>") and e[1].endswith("|rb"))]
        out.write(json.dumps({"i": idx, "phase": "done", "outcome": outcome, "exc": exc_s, "cpu": round(cpu, 3),
                              "events": bad[:10], "n_compile": sum(1 for e in EVENTS if e[0] == "compile"),
                              "canary": canary_hit, "env_changed": env_changed, "state_changed": state_changed, "host_leak": leak}) + "\n")
        out.flush()
    out.write(json.dumps({"phase": "finished"}) + "\n")
    out.close()


if __name__ == "__main__":
    main()
