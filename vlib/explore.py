"""Ad-hoc exploration driver: bucket differential outcomes of generated programs (not a check)."""
import json, sys, collections
sys.path.insert(0, '/verif')
from vlib import engine
from vlib.common import run_cases
from vlib.gen import prog

def one(case):
    idx, profile, seed = case
    p = prog.generate(("explore", seed, idx), profile)
    passes = 3
    r = engine.differential(p["source"], passes=passes, hazards=True, trace_types=False)
    keep = {k: r.get(k) for k in ("outcome", "exc", "diag", "divergence", "why", "san_reports", "fw_nevents", "stderr")}
    keep["hz"] = engine.hazards_before(r)
    keep["source"] = p["source"]
    keep["features"] = p["features"]; keep["gen_hazards"] = p.get("hazards")
    return keep

if __name__ == "__main__":
    profile = sys.argv[1]; n = int(sys.argv[2]); seed = int(sys.argv[3]) if len(sys.argv) > 3 else 0
    buckets = collections.defaultdict(list)
    for case, st, res in run_cases(one, [(i, profile, seed) for i in range(n)]):
        if st != "ok":
            buckets[("ERR", res[-300:])].append(case); continue
        key = res["outcome"]
        if key == "diverged":
            key = ("diverged", res["divergence"]["why"], tuple(res["hz"]), tuple(res["gen_hazards"]))
        elif key == "uncompilable":
            import re
            key = ("uncompilable", re.sub(r"^\S*sketch.cpp:\d+:\d+", "", res["diag"])[:120], tuple(res["gen_hazards"]))
        elif key in ("rejected", "internal", "py-undefined"):
            key = (key, (res.get("exc") or "")[:100], tuple(res["gen_hazards"]))
        elif key == "fw-hang":
            key = (key, tuple(res["gen_hazards"]))
        elif key == "equal" and res["san_reports"]:
            key = ("equal+san", tuple(sorted(set((a, b) for a, b, c in res["san_reports"]))))
        buckets[key].append((case[0], res))
    for k, v in sorted(buckets.items(), key=lambda kv: -len(kv[1])):
        print(len(v), k, [x[0] if isinstance(x, tuple) else x for x in v[:6]])
    json.dump({str(k): [(x[0], x[1]) if isinstance(x, tuple) and len(x)==2 and isinstance(x[1], dict) else x for x in v[:3]] for k, v in buckets.items()}, open('/tmp/explore_out.json', 'w'), indent=1, default=str)
