"""C06 - accepted scripts always yield well-formed, compilable Arduino C++ (the compiler is the oracle)."""
from __future__ import annotations

import json
import re

from .. import engine, fw, witness
from ..common import Report, rng_for, run_cases, seed, tier
from ..gen import actuators, corpus, prog

PROP = "C06"

ASCII = "".join(chr(c) for c in range(32, 127))
SPECIAL = ['"', "'", "\\", "%", "%d", "%s", "??/", "??=", "{", "}", "{{}}", "//", "/*", "*/", "#", ";", "\\n", "\\\\", "\\\"", "$", "`", "<>", "&&", "||", "0x", "\\x41", "u8", "R\"(", ")\"", "''", "\"\"\""[:2]]
UNI = ["é", "ü", "ß", "ñ", "Ω", "π", "Ж", "中文", "日本語", "한글", "→", "✓", "€", "😀", "𝄞", "¿?", "naïve café"]


def py_str(s: str) -> str:
    """A Python string literal (double-quoted) for s."""
    return '"' + s.replace("\\", "\\\\").replace('"', '\\"') + '"'


def string_fuzz_script(rng):
    L = corpus.HDR.splitlines()
    L.append("lcd = LCD(rs=12, en=11, d4=5, d5=4, d6=3, d7=2, cols=20, rows=4)")
    L.append("n = 7")
    texts = []

    def rand_text():
        k = rng.random()
        if k < 0.35:
            return "".join(rng.choice(ASCII) for _ in range(rng.randint(0, 24)))
        if k < 0.7:
            return "".join(rng.choice(SPECIAL + list(ASCII[:20])) for _ in range(rng.randint(1, 6)))
        if k < 0.9:
            return rng.choice(UNI) + "".join(rng.choice(ASCII) for _ in range(rng.randint(0, 5)))
        return ASCII[rng.randint(0, 40): rng.randint(41, 95)]

    for _ in range(rng.randint(3, 10)):
        t = rand_text()
        texts.append(t)
        pos = rng.choice(["write", "write", "fstr", "assign", "lcd", "list", "concat", "cmp", "fn"])
        if pos == "write":
            L.append(f"mon.write({py_str(t)})")
        elif pos == "fstr":
            body = t.replace("{", "{{").replace("}", "}}").replace("\\", "\\\\").replace('"', '\\"')
            L.append(f'mon.write(f"{body}{{n}}{body}")')
        elif pos == "assign":
            L.append(f"s{len(texts)} = {py_str(t)}")
            L.append(f"mon.write(s{len(texts)})")
        elif pos == "lcd":
            L.append(f"lcd.line(0, {py_str(t)})")
        elif pos == "list":
            L.append(f"names{len(texts)} = [{py_str(t)}, {py_str(rand_text())}]")
            L.append(f"mon.write(names{len(texts)}[0])")
        elif pos == "concat":
            L.append(f"c{len(texts)} = {py_str(t)}")
            L.append(f"c{len(texts)} = c{len(texts)} + {py_str(rand_text())}")
            L.append(f"mon.write(c{len(texts)})")
        elif pos == "cmp":
            L.append(f"q{len(texts)} = {py_str(t)}")
            L.append(f"if q{len(texts)} == {py_str(t)}:")
            L.append(f"    mon.write(\"same\")")
        else:
            L.append(f"def fn{len(texts)}():")
            L.append(f"    return {py_str(t)}")
            L.append(f"mon.write(fn{len(texts)}())")
    return "\n".join(L) + "\n"


def device_script(rng, idx, sd):
    from . import C15, C16, C17, C18

    k = idx % 6
    if k == 0:
        return actuators.generate((PROP, sd, "act", idx))["source"]
    if k == 1:
        return C15.gen(rng, 3)[0]
    if k == 2:
        return C16.gen(rng, True)[0]
    if k == 3:
        return C17.gen(rng)[0]
    if k == 4:
        return C18.gen(rng)[0]
    return rng.choice(corpus.device_scripts(rng, 2))


def structure_problems(cpp: str):
    out = []
    n_setup = len(re.findall(r"^void setup\(\)\s*\{", cpp, re.M))
    n_loop = len(re.findall(r"^void loop\(\)\s*\{", cpp, re.M))
    if n_setup != 1 or n_loop != 1:
        out.append(("structure", f"{n_setup} setup() and {n_loop} loop() definitions"))
    incs = re.findall(r"^\s*#\s*include\s*<([^>]+)>", cpp, re.M)
    if "Arduino.h" not in incs:
        out.append(("structure", "Arduino.h not included"))
    for cls, hdr in (("Servo", "Servo.h"), ("LiquidCrystal", "LiquidCrystal.h"), ("LiquidCrystal_I2C", "LiquidCrystal_I2C.h")):
        if re.search(rf"^{cls}\s+\w+", cpp, re.M) and hdr not in incs:
            out.append(("missing-include", f"{cls} instantiated without #include <{hdr}>"))
    return out


def run_case(case):
    kind, idx, sd, run = case
    rng = rng_for(PROP, sd, kind, idx)
    if kind == "prog":
        script = prog.generate((PROP, sd, "prog", idx), "clean")["source"]
    elif kind == "device":
        script = device_script(rng, idx, sd)
    elif kind == "ctx":
        from .C07 import function_before_declaration_scripts
        # (every second script of that family declares the device BEFORE the helper that uses it: devices used only from helpers)
        pool = corpus.context_scripts(rng_for(PROP, sd, "ctx"), 16) + corpus.collision_scripts(rng_for(PROP, sd, "col"), 36, conflicting_returns=False, shadow_helpers=False) + \
            [fs for fs in function_before_declaration_scripts()[1::2] if ".animate(" not in fs] + corpus.helper_only_scripts() + corpus.main_loop_break_scripts() + corpus.twice_scripts()
        script = pool[idx % len(pool)]
    elif kind == "boundary":
        script = corpus.boundary_scripts()[idx % len(corpus.boundary_scripts())]
    elif kind == "usesite":
        script = corpus.helper_use_site_scripts()[idx % len(corpus.helper_use_site_scripts())]
    elif kind == "lists":
        from ..gen import lists
        script = lists.generate((PROP, sd, "lists", idx, ()), ())["source"]
    elif kind == "poly":
        from .C02 import poly_program
        script = poly_program(rng)
    else:
        script = string_fuzz_script(rng)
    t = engine.transpile(script)
    out = {"kind": kind, "script": script, "transpile": t["status"], "exc": t.get("exc")}
    if t["status"] != "ok":
        return out
    cpp = t["cpp"]
    out["cpp"] = cpp
    if kind == "boundary":
        # "documented style" = the host classes run the script: a call the Python library itself refuses is outside the property
        with fw.Scratch() as wd0:
            py = engine.host_reference(script, wd0, passes=1)
        out["host_status"] = py.get("status")
        if py.get("status") != "ok":
            out["transpile"] = "host-refuses"
            return out
    out["structure"] = structure_problems(cpp)
    with fw.Scratch() as wd:
        src = wd / "sketch.cpp"
        src.write_text(cpp)
        ok, diag = fw.syntax_check(src, cpp)
        out["syntax_ok"] = ok
        out["diag"] = engine.first_diag_line(diag) if not ok else None
        if ok and run:
            if kind == "strings":
                d = engine.differential(script, passes=1, workdir=wd / "d", keep=("SER",))
                out["diff_outcome"] = d["outcome"]
                out["divergence"] = d.get("divergence")
                out["diag2"] = d.get("diag")
            else:
                b = fw.build(cpp, wd / "b")
                out["link_ok"] = b["ok"]
                out["diag2"] = engine.first_diag_line(b.get("diag", "")) if not b["ok"] else None
    return out


def bucket(diag: str) -> str:
    d = re.sub(r"^\S*sketch\.cpp:\d+:\d+:\s*", "", diag or "")
    d = re.sub(r"[‘'`][^’']*[’']", "<id>", d)
    d = re.sub(r"\d+", "N", d)
    return d[:90]


def main() -> int:
    rep = Report(PROP)
    t = tier()
    sd = seed()
    if t == "quick":
        cases = [("prog", i, sd, i % 8 == 0) for i in range(300)] + [("device", i, sd, i % 3 == 0) for i in range(180)] + [("strings", i, sd, i % 2 == 0) for i in range(120)] + [("poly", i, sd, i % 4 == 0) for i in range(120)] + [("ctx", i, sd, i % 4 == 0) for i in range(260)] + [("lists", i, sd, i % 4 == 0) for i in range(60)] + [("boundary", i, sd, i % 4 == 0) for i in range(len(corpus.boundary_scripts()))] + [("usesite", i, sd, True) for i in range(len(corpus.helper_use_site_scripts()))]
    else:
        cases = [("prog", i, sd, i % 4 == 0) for i in range(3000)] + [("device", i, sd, i % 2 == 0) for i in range(2000)] + [("strings", i, sd, True) for i in range(1000)] + [("poly", i, sd, i % 2 == 0) for i in range(1000)] + [("ctx", i, sd, True) for i in range(260)] + [("lists", i, sd, i % 2 == 0) for i in range(600)] + [("boundary", i, sd, True) for i in range(len(corpus.boundary_scripts()))] + [("usesite", i, sd, True) for i in range(len(corpus.helper_use_site_scripts()))]
    for case, st, res in run_cases(run_case, cases):
        if st != "ok":
            rep.inconclusive_because(f"case {case[:2]} failed: {res[-300:]}")
            continue
        kind = res["kind"]
        w = {"script.py": res["script"], "sketch.cpp": res.get("cpp") or "", "detail.json": json.dumps({k: res.get(k) for k in ("diag", "diag2", "structure", "divergence", "exc")}, indent=1, default=str)}
        if res["transpile"] != "ok":
            rep.case(None, False)
            rep.count(f"{kind}:{res['transpile']}")
            continue
        rep.case(str(hash(res["cpp"])), True)
        rep.count(f"{kind}:accepted")
        for key, msg in res["structure"]:
            rep.violation(f"{kind}: {msg}", w, key=key)
        if not res["syntax_ok"]:
            rep.violation(f"accepted {kind} script does not compile: {res['diag']}", w, key="compile:" + bucket(res["diag"]))
            continue
        rep.count("sketches_compiled_avr_like_frontend")
        if "link_ok" in res:
            rep.count("sketches_linked_against_mock_libraries")
            if not res["link_ok"]:
                rep.violation(f"accepted {kind} script does not build/link: {res['diag2']}", w, key="link:" + bucket(res["diag2"]))
        if "diff_outcome" in res:
            rep.count("string_scripts_run:" + res["diff_outcome"])
            if res["diff_outcome"] == "diverged":
                d = res["divergence"]
                rep.violation(f"string literal not preserved (escaping): fw={d['fw']} py={d['py']}", w, key="escape")
            elif res["diff_outcome"] in ("uncompilable", "fw-crash", "fw-hang"):
                rep.violation(f"string-literal script: {res['diff_outcome']} {res.get('diag2')}", w, key="strings:" + res["diff_outcome"])
        if len(rep.samples) < 3 and kind == "strings":
            rep.sample({"kind": kind, "script_tail": res["script"][-500:]})
    witness.check_witnesses(rep)
    rep.rule = ("accepted scripts from the generators - one call per script with a literal argument on or just outside a documented limit (judged when the host classes run it), core-language programs, device-heavy scripts (actuators, sensors, buzzer, LCD text and "
                "animations, multi-device), string-literal fuzz (every printable ASCII character, quotes, backslashes, %, trigraph-like sequences, braces in "
                "f-strings, Latin-1/CJK/emoji in serial writes, f-strings, assignments, lists, LCD text, comparisons, helper returns) - are compiled with "
                "g++ -std=gnu++11 -fpermissive -nostdinc++ against the mock core (C headers only); a sample is linked against the mock libraries and the "
                "string scripts are run and compared with CPython; structure monitor: one setup(), one loop(), headers for instantiated library classes. "
                "non-trivial = accepted by the transpiler")
    rep.assumptions = ["g++ with -fpermissive and no C++ standard headers approximates avr-gcc's front end; exceptions left enabled",
                       "string literals are printable (no control characters)"]
    return rep.finish(min_distinct=100)


if __name__ == "__main__":
    raise SystemExit(main())
