"""C18 - LCD animations never block, stay inside their row, finish unless looping.
Firmware: per-pass frame/time monitor; host: contract monitor on LCD.animate/LCD.tick under random tick schedules."""
from __future__ import annotations

import json

from .. import engine, fw, trace
from ..common import Report, ensure_deps, rng_for, run_cases, seed, tier, use_repo

PROP = "C18"
STYLES = ["scroll", "blink", "typewriter", "bounce"]

HDR = """from Reduino import target
target("COM3")
from Reduino.Communication import SerialMonitor
from Reduino.Displays import LCD
from Reduino.Sensors import Button
from Reduino.Utils import sleep

mon = SerialMonitor(9600)
"""


def bound(n, cols):
    return 2 * (n + cols) + 4


def text_of(rng, cols):
    n = rng.choice([0, 1, max(0, cols - 1), cols, cols + 1, 3 * cols, rng.randint(0, 2 * cols)])
    return ("Reduino rocks! " * 10)[:n]


def gen(rng):
    L = HDR.splitlines()
    cols = rng.choice([1, 2, 8, 16, 20, 5])
    rows = rng.choice([2, 4, 2, 3])
    i2c = rng.random() < 0.5
    n_lcd = rng.choice([1, 1, 2])
    anims = []
    lcds = []
    # display names: unrelated, or one being a prefix of the other (generated identifiers are derived from them)
    nm = rng.choice([["lcd0", "lcd1"], ["lcd", "lcd_2"], ["panel", "panel_big"], ["d", "d_"], ["top", "bottom"]])
    chunks = []
    cols0 = cols
    for li in range(n_lcd):
        # a second display of the same driver class may have another width (helpers are shared per class, state is per display)
        cols = cols0 if li == 0 or rng.random() < 0.5 else rng.choice([c2 for c2 in (8, 16, 20, 5, 2) if c2 != cols0])
        if i2c and li == 0:
            L.append(f"{nm[li]} = LCD(i2c_addr=39, cols={cols}, rows={rows})")
        else:
            b = 2 + li * 6
            L.append(f"{nm[li]} = LCD(rs={b}, en={b + 1}, d4={b + 2}, d5={b + 3}, d6={b + 4}, d7={b + 5}, cols={cols}, rows={rows})")
        lcds.append({"idx": li, "cols": cols, "rows": rows})
        used_rows = rng.sample(range(rows), rng.randint(1, min(rows - 1, 2)) if rows > 1 else 1)
        static_rows = [r for r in range(rows) if r not in used_rows]
        for r in static_rows:
            txt = ("static" + str(r) + "________________________________________")[:cols]
            L.append(f"{nm[li]}.line({r}, \"{txt}\")")
        for r in used_rows:
            chunk_from = len(L)
            style = rng.choice(STYLES)
            text = text_of(rng, cols)
            speed = rng.choice([0, 1, 50, 200, 20])
            if rng.random() < 0.08:
                speed = rng.choice([65536, 70000, 65735, 131080])   # more than 16 bits of milliseconds
            loop = rng.random() < 0.5
            kw = []
            form = rng.random()
            sp_style = rng.choice([style, style, style, style.upper(), style.capitalize()])  # the name is case-insensitive
            if form < 0.5:
                L.append(f"{nm[li]}.animate(\"{sp_style}\", {r}, {text!r}, speed_ms={speed}, loop={loop})")
            elif form < 0.8:
                L.append(f"{nm[li]}.animate(style=\"{sp_style}\", row={r}, text={text!r}, loop={loop}, speed_ms={speed})")
            elif form < 0.9:
                L.append(f"sp = {speed}")
                L.append(f"{nm[li]}.animate(\"{sp_style}\", {r}, {text!r}, speed_ms=sp, loop={loop})")
            else:
                # the loop flag comes from a variable that starts as the other literal and is set in a block taken at run time
                L.append(f"rep{li}{r} = {not loop}")
                L.append("if 3 > 2:" if rng.random() < 0.5 else "for once2 in range(1):")
                L.append(f"    rep{li}{r} = {loop}")
                L.append(f"{nm[li]}.animate(\"{sp_style}\", {r}, {text!r}, speed_ms={speed}, loop=rep{li}{r})")
            if rng.random() < 0.2:
                # the animation is started from inside a block (try/except, for, if-else): it still has to be ticked
                call = L.pop()
                pre = []
                if L and L[-1].startswith("sp = "):
                    pre = [L.pop()]
                wrap = rng.choice(["try", "for", "ifelse", "ifboth", "ifboth"])
                if wrap == "try":
                    L += pre + ["try:", "    " + call, "except:", "    pass"]
                elif wrap == "for":
                    L += pre + ["for once in range(1):", "    " + call]
                elif wrap == "ifboth":
                    # every arm of one chain starts an animation of its own (only one arm runs): each call site has its own state
                    other_style = rng.choice([s2 for s2 in STYLES if s2 != style])
                    dead = f"{nm[li]}.animate(\"{other_style}\", {r}, \"never shown\", speed_ms=0, loop=True)"
                    dead2 = f"{nm[li]}.animate(\"{rng.choice(STYLES)}\", {r}, \"nor this\", speed_ms=1, loop=True)"
                    form2 = rng.choice([0, 1, 2])
                    if form2 == 0:
                        L += pre + ["if 2 > 3:", "    " + dead, "else:", "    " + call]
                    elif form2 == 1:
                        L += pre + ["if 3 > 2:", "    " + call, "else:", "    " + dead]
                    else:
                        L += pre + ["if 2 > 3:", "    " + dead, "elif 3 > 2:", "    " + call, "else:", "    " + dead2]
                else:
                    L += pre + ["if 2 > 3:", "    pass", "else:", "    " + call]
            L.append(f"mon.write(\"@start\")")
            chunks.append(L[chunk_from:])
            del L[chunk_from:]
            anims.append({"lcd": li, "row": r, "style": style, "text": text, "speed": speed, "loop": loop, "cols": cols,
                          "static_rows": static_rows})
    # the animations are started in an order that interleaves the displays (A, B, A ...)
    order = list(range(len(chunks)))
    if rng.random() < 0.6:
        rng.shuffle(order)
    for ci in order:
        L += chunks[ci]
    period = rng.choice([0, 1, 10, 50, 60, 250])
    has_button = rng.random() < 0.35
    if has_button:
        # other injected housekeeping (button sampling) must not displace the animation ticks
        L.append("btn = Button(19)")
    L.append("while True:")
    L.append("    mon.write(\"@p\")")
    if has_button:
        L.append("    mon.write(btn.is_pressed())")
    if rng.random() < 0.3:
        # an explicit tick() written by the user under a condition that is false at run time: the once-per-pass advance goes on
        guard = "btn.is_pressed()" if has_button else rng.choice(["npasses > 100000", "npasses < 0"])
        if not has_button:
            L.insert(L.index("while True:"), "npasses = 0")
            L.append("    npasses += 1")
        L.append(f"    if {guard}:")
        L.append(f"        {nm[0]}.tick()" if rng.random() < 0.5 else f"        {nm[0]}.tick(0)")
    L.append(f"    sleep({period})")
    return "\n".join(L) + "\n", anims, lcds, period


def must_write(a):
    """Does the first tick of this animation necessarily write to the display?"""
    n, cols = len(a["text"]), a["cols"]
    if a["style"] in ("scroll", "blink"):
        return True
    if a["style"] == "typewriter":
        return n >= 2 or n == 0
    return n == 0 or n >= cols or (0 < n < cols)  # bounce always repaints


def fw_monitor(events, anims, lcds, passes, t0):
    problems = []
    stats = {"steps": 0, "frames": 0}
    # index events per pass
    cur = -1
    in_prologue = False
    per_pass_w = {}
    after_start = False
    static_expect = {}
    step_times = {}
    for t, kind, f in events:
        if kind == "PASS":
            cur = int(f[0])
            in_prologue = True
            continue
        if kind == "SER":
            text = trace.unesc(f[0])
            if text == "@p":
                in_prologue = False
            if text == "@start":
                after_start = False
            continue
        if kind == "DELAY":
            if in_prologue and cur >= 0:
                problems.append(("delay-in-tick", f"delay({f[0]}) inside the injected tick prologue of pass {cur}"))
            if cur < 0:
                problems.append(("delay-in-animate", f"delay({f[0]}) in setup() while starting animations"))
        if kind == "LCD" and f[1] == "OOB":
            problems.append(("frame-outside-row", f"animation wrote outside the display: LCD {f[0]} col {f[2]} row {f[3]}"))
        if kind == "LCD" and f[1] == "ROWCLAMP":
            problems.append(("frame-outside-row", f"animation addressed a row outside the display: {f}"))
        if kind == "LCD" and f[1] == "W" and cur >= 0:
            lcd, col, row, txt = int(f[0]), int(f[2]), int(f[3]), trace.unesc(f[4]) if len(f) > 4 else ""
            if not in_prologue:
                problems.append(("write-outside-tick", f"LCD write in pass {cur} outside the tick prologue"))
            per_pass_w.setdefault((lcd, row), {}).setdefault(cur, []).append((t, col, txt))
        if kind == "LCDSNAP" and cur >= 0:
            lcd = int(f[0])
            rows = [trace.unesc(x) for x in f[5:]]
            stats["frames"] += 1
            for a in anims:
                if a["lcd"] != lcd:
                    continue
                for r in a["static_rows"]:
                    want = ("static" + str(r) + "________________________________________")[:a["cols"]]
                    if r < len(rows) and rows[r] != want:
                        problems.append(("other-row-changed", f"row {r} of LCD {lcd} changed to {rows[r]!r} (animation on row {a['row']})"))
                if a["row"] < len(rows) and len(rows[a["row"]]) != a["cols"]:
                    problems.append(("frame-width", f"frame width {len(rows[a['row']])} != {a['cols']}"))
    for a in anims:
        key = (a["lcd"], a["row"])
        writes = per_pass_w.get(key, {})
        B = bound(len(a["text"]), a["cols"])
        step_passes = sorted(writes)
        stats["steps"] += len(step_passes)
        for k, ws in writes.items():
            # one step = clear-row followed by at most one print: more than two writes means more than one step
            if len(ws) > 2:
                problems.append(("multi-step-per-pass", f"{a['style']} on row {a['row']}: {len(ws)} row writes in pass {k} (more than one step)"))
            for (t, col, txt) in ws:
                if col + len(txt) > a["cols"]:
                    problems.append(("frame-outside-row", f"{a['style']}: write of {len(txt)} chars at col {col} exceeds {a['cols']} columns"))
        # pacing
        prev_t = None
        for k in step_passes:
            tk = writes[k][0][0] / 1000.0
            if prev_t is not None and prev_t >= 1.0 and a["speed"] > 0 and (tk - prev_t) < a["speed"] - 1.0:
                problems.append(("too-fast", f"{a['style']} speed_ms={a['speed']}: steps at {prev_t:.1f} ms and {tk:.1f} ms"))
                break
            prev_t = tk
        # the transpiler guarantees the animation is advanced: enough virtual time for several steps but none happened
        total_ms = (max((t for t, k, f in events), default=0) / 1000.0) - t0
        if not step_passes and passes >= 3 and (a["speed"] == 0 or total_ms >= 4 * a["speed"]) and must_write(a):
            problems.append(("never-ticked", f"{a['style']} on row {a['row']} (speed_ms={a['speed']}) was started but never advanced in {passes} passes / {total_ms:.0f} ms"))
        if not a["loop"]:
            if len(step_passes) > B:
                problems.append(("non-looping-not-finished", f"non-looping {a['style']} (len {len(a['text'])}, cols {a['cols']}) still stepping after {len(step_passes)} steps (> bound {B})"))
        else:
            # bounded-progress form of "never becomes inactive": still stepping in the last quarter of the horizon
            horizon_ok = passes >= 3 * B
            if horizon_ok and not any(k >= passes - max(4, passes // 4) for k in step_passes):
                # steps may be sparse when speed_ms >> period; require one step in the tail only if pacing permits
                problems.append(("looping-stopped", f"looping {a['style']} (text {a['text']!r}, cols {a['cols']}) made no step in the last quarter of {passes} passes"))
    return problems, stats


def run_fw_case(case):
    idx, sd, passes, t0 = case
    rng = rng_for(PROP, sd, "fw", idx)
    script, anims, lcds, period = gen(rng)
    # a looping animation can only be expected to step in the tail when enough virtual time passes per pass
    t = engine.transpile(script)
    out = {"script": script, "transpile": t["status"], "exc": t.get("exc"), "period": period}
    if t["status"] != "ok":
        return out
    out["cpp"] = t["cpp"]
    with fw.Scratch() as wd:
        f = engine.firmware(t["cpp"], wd, passes=passes, t0_ms=t0)
    out["fw_status"] = f["status"]
    out["diag"] = engine.first_diag_line(f.get("diag", ""))
    if f["status"] != "ok":
        return out
    for a in anims:
        if a["loop"] and a["speed"] > 0 and period * (passes // 4) < a["speed"] * 2:
            a["loop"] = True
            a["_sparse"] = True
    problems, stats = fw_monitor(f["events"], anims, lcds, passes, t0)
    problems = [p for p in problems if not (p[0] == "looping-stopped" and any(a.get("_sparse") for a in anims))]
    out["problems"] = problems[:8]
    out["stats"] = stats
    out["anims"] = [{k: a[k] for k in ("style", "text", "speed", "loop", "cols")} for a in anims]
    return out


# ---------------------------------------------------------------------------------------------
# host side: contract monitor on LCD.animate / LCD.tick

class PostBroken(Exception):
    pass


def run_host_case(case):
    idx, sd, n = case
    ensure_deps()
    use_repo()
    import sys

    import icontract
    LCDM = sys.modules.get("Reduino.Displays.LCD")
    if LCDM is None:
        import importlib
        importlib.import_module("Reduino.Displays.LCD")
        LCDM = sys.modules["Reduino.Displays.LCD"]
    LCD = LCDM.LCD
    evals = {"n": 0}
    if not getattr(LCD, "_verif_wrapped", False):
        def rows_ok(self):
            evals_global["n"] += 1
            return len(self.buffer) == self.rows and all(len(r) == self.cols for r in self.buffer)

        LCD.tick = icontract.ensure(rows_ok, error=PostBroken)(LCD.tick)
        LCD.animate = icontract.ensure(rows_ok, error=PostBroken)(LCD.animate)
        LCD._verif_wrapped = True
    problems = []
    ticks = 0
    bystander = None

    def anim_view(d):
        return sorted((repr(k), bool(getattr(a, "active", None)), getattr(a, "text", None), getattr(a, "row", None)) for k, a in d.animations.items())

    for j in range(n):
        r = rng_for(PROP, sd, "host", idx, j)
        cols = r.choice([1, 2, 8, 16, 20, 5, r.randint(1, 40)])
        rows = r.choice([1, 2, 4])
        by_view = anim_view(bystander) if bystander is not None else None
        lcd = LCD(rs=1, en=2, d4=3, d5=4, d6=5, d7=6, cols=cols, rows=rows) if r.random() < 0.5 else LCD(i2c_addr=39, cols=cols, rows=rows)
        if bystander is not None and anim_view(bystander) != by_view:
            problems.append(("host-cross-display", f"constructing another LCD changed the animations of an existing display: {by_view} -> {anim_view(bystander)}"))
            by_view = anim_view(bystander)
        style = r.choice(STYLES)
        row = r.randrange(rows)
        text = text_of(r, cols)
        speed = r.choice([0, 1, 50, 200, 7])
        loop = r.random() < 0.5
        other = {q: lcd.buffer[q] for q in range(rows) if q != row}
        label = f"{style} text={text!r} cols={cols} rows={rows} speed={speed} loop={loop}"
        try:
            # animate() accepts the style name in any letter case
            spelled = r.choice([style, style, style.upper(), style.capitalize(), style[0] + style[1:].upper()])
            lcd.animate(spelled, row, text, speed_ms=speed, loop=loop)
        except PostBroken as e:
            problems.append(("host-frame-width", f"animate({label}): row width invariant broken"))
            continue
        except Exception as e:  # noqa: BLE001
            problems.append(("host-animate-raises", f"animate({label}) raised {type(e).__name__}: {e}"))
            continue
        if bystander is not None and anim_view(bystander) != by_view:
            problems.append(("host-cross-display", f"animate() on one LCD changed the animations of another display: {by_view} -> {anim_view(bystander)}"))
        if not lcd.animations:
            problems.append(("host-animate-lost", f"animate({label}) registered no animation"))
            bystander = lcd
            continue
        state = list(lcd.animations.values())[-1]
        if rows > 1 and r.random() < 0.35:
            # a second animation on ANOTHER row of the same display, typically one that has nothing to move (empty text, or a text that
            # fills the row, looping): it must not disturb the first one
            row2 = r.choice([q for q in range(rows) if q != row])
            st2 = r.choice(["bounce", "typewriter", "bounce", "blink", "scroll"])
            tx2 = r.choice(["", text_of(r, cols)[:cols].ljust(cols, "x"), "ab"])
            try:
                lcd.animate(st2, row2, tx2, speed_ms=r.choice([0, 1, 7]), loop=r.random() < 0.8)
            except Exception as e:  # noqa: BLE001
                problems.append(("host-animate-raises", f"second animate({st2}, row {row2}, {tx2!r}) raised {type(e).__name__}: {e}"))
            other = {q: v for q, v in other.items() if q != row2}
        B = bound(len(text), cols)
        due_ticks = 0
        now = r.choice([0, 1, 5, 1000])
        steps = 0
        last_step_t = None
        horizon = 3 * B + 10
        # a steady stream of ticks much faster than the animation's period, long enough to pass the wrap-around several times
        steady = speed > 0 and r.random() < 0.35
        if steady:
            horizon = min(4000, 25 * (B + 2))
        for k in range(horizon):
            mode = r.random()
            inc = 0 if mode < 0.15 else (speed if mode < 0.5 else r.choice([1, max(1, speed // 2), speed + 1, 3 * speed + 1, 1000]))
            if steady:
                inc = max(1, speed // 10)
            now += inc
            if now <= 0:
                now = 1
            before = lcd.buffer[row]
            before_tick = state.last_tick
            if state.active and (speed == 0 or last_step_t is None or now - last_step_t >= speed):
                due_ticks += 1
            try:
                lcd.tick(now)
            except PostBroken:
                problems.append(("host-frame-width", f"tick({now}) on {label}: a row is not exactly {cols} wide"))
                break
            except Exception as e:  # noqa: BLE001
                problems.append(("host-tick-raises", f"tick({now}) on {label} raised {type(e).__name__}: {e}"))
                break
            ticks += 1
            if bystander is not None and k % 3 == 0:
                # a second, independent display ticked in the same loop: neither may touch the other's rows
                mine = list(lcd.buffer)
                try:
                    bystander.tick(now)
                except PostBroken:
                    problems.append(("host-frame-width", f"tick({now}) on a second display while {label} runs: row width broken"))
                except Exception as e:  # noqa: BLE001
                    problems.append(("host-cross-display", f"tick({now}) on a second display while {label} runs raised {type(e).__name__}: {e}"))
                    bystander = None
                if list(lcd.buffer) != mine:
                    problems.append(("host-cross-display", f"ticking another display changed the buffer of the display running {label}"))
            stepped = state.last_tick != before_tick or (state.last_tick == now and before_tick == now and False)
            # a step is seen from the outside as a changed frame (and/or from the state's own time stamp)
            if (state.last_tick == now and before_tick != now) or lcd.buffer[row] != before:
                if last_step_t is not None and last_step_t > 0 and speed > 0 and now - last_step_t < speed:
                    problems.append(("host-too-fast", f"{label}: steps at {last_step_t} and {now}"))
                last_step_t = now
                steps += 1
            for q, v in other.items():
                if lcd.buffer[q] != v:
                    problems.append(("host-other-row", f"{label}: row {q} changed by tick"))
                    other[q] = lcd.buffer[q]
            if not loop and steps > B and state.active:
                problems.append(("host-non-looping-not-finished", f"{label}: still active after {steps} steps (> bound {B})"))
                break
        if loop and not state.active:
            problems.append(("host-looping-stopped", f"{label}: looping animation became inactive"))
        if not loop and state.active and due_ticks > B + 5:
            problems.append(("host-non-looping-never-finished", f"{label}: still active after {due_ticks} ticks that were due (bound {B} steps), {steps} steps seen"))
        bystander = lcd
    return {"problems": problems[:6], "ticks": ticks, "evals": evals_global["n"]}


evals_global = {"n": 0}


def main() -> int:
    rep = Report(PROP)
    t = tier()
    sd = seed()
    n_fw = 220 if t == "quick" else 1500
    passes = 150 if t == "quick" else 300
    for case, st, res in run_cases(run_fw_case, [(i, sd, passes, (0, 0, 700, 2 ** 32 - 40, 2 ** 32 - 100, 2 ** 32 - 3, 0, 2 ** 32 - 250, 2 ** 32 - 1000)[i % 9]) for i in range(n_fw)]):
        if st != "ok":
            rep.inconclusive_because(f"case {case} failed: {res[-300:]}")
            continue
        w = {"script.py": res["script"], "sketch.cpp": res.get("cpp") or "", "detail.json": json.dumps({k: res.get(k) for k in ("problems", "fw_status", "diag", "exc", "anims", "period")}, indent=1, default=str)}
        if res["transpile"] != "ok":
            rep.case(None, False)
            rep.violation(f"animation script not transpiled: {res['transpile']} {res.get('exc')}", w, key="transpile")
            continue
        if res["fw_status"] != "ok":
            rep.case(None, False)
            rep.violation(f"animation firmware: {res['fw_status']} {res.get('diag')}", w, key="fw:" + res["fw_status"])
            continue
        rep.case("fw:" + str(hash(res["script"])), res["stats"]["steps"] > 0)
        rep.count("fw_animation_steps", res["stats"]["steps"])
        rep.count("fw_frames_checked", res["stats"]["frames"])
        for key, msg in res["problems"]:
            rep.violation(msg, w, key=key)
        if len(rep.samples) < 3:
            rep.sample({"animations": res["anims"], "period_ms": res["period"], "steps_observed": res["stats"]["steps"]})
    n_host = 100 if t == "quick" else 800
    for case, st, res in run_cases(run_host_case, [(i, sd, 50) for i in range(n_host)]):
        if st != "ok":
            rep.inconclusive_because(f"host case {case} failed: {res[-300:]}")
            continue
        rep.case(f"host:{case[0]}", res["ticks"] > 0)
        rep.count("host_ticks", res["ticks"])
        rep.count("host_contract_evaluations", res["evals"])
        for key, msg in res["problems"]:
            rep.violation(msg, {"detail.json": json.dumps({"case": case, "problem": msg})}, key=key)
    # witnesses of open findings
    from ..common import VERIF
    for f in rep.primary_findings:
        if not f.get("witness"):
            continue
        script = (VERIF / f["witness"]).read_text()
        tr = engine.transpile(script)
        rep.count("witnesses_run")
        if tr["status"] != "ok":
            rep.violation(f"witness of {f['id']} no longer transpiles: {tr.get('exc')}", {"script.py": script}, key="witness:" + f["id"])
            continue
        with fw.Scratch() as wd:
            r = engine.firmware(tr["cpp"], wd, passes=30)
        later = sum(1 for i, (tt, kind, ff) in enumerate(r["events"]) if kind == "LCD" and ff[1] == "W" and any(e[1] == "PASS" and int(e[2][0]) >= 1 for e in r["events"][:i]))
        if r["status"] != "ok":
            rep.violation(f"witness of {f['id']}: firmware {r['status']}", {"script.py": script}, key="witness:" + f["id"])
        elif later == 0:
            rep.known(f["id"], f"{f['mechanism'][:130]} [witness {f['witness']}: no LCD write after pass 0 in 30 passes]")
        else:
            print(f"note: witness of {f['id']} no longer reproduces (defect gone?)")
    if rep.counters.get("host_contract_evaluations", 0) == 0:
        rep.inconclusive_because("host tick contract never evaluated")
    if rep.counters.get("fw_animation_steps", 0) == 0:
        rep.inconclusive_because("no firmware animation step observed")
    rep.rule = ("firmware: 1-2 LCDs (cols {1,2,5,8,16,20}), 1-2 animated rows each, 4 styles x texts {empty .. 3*cols} x speed {0,1,20,50,200} x loop on/off, loop "
                "period {0,1,10,50,60,250} ms, clock starting at {0, 700, 2^32-{3,40,100,250,1000}} ms (32-bit unsigned long: millis() rolls over inside the run), 150-300 passes; monitors: no delay() in the injected tick prologue or while "
                "starting, writes only inside the prologue, frames inside the row and exactly cols wide, static rows untouched, <= 1 step per pass, step "
                "spacing >= speed_ms, non-looping animations stop within B = 2(len+cols)+4 steps, looping ones still step in the last quarter of >= 3B "
                "passes. host: icontract postconditions on LCD.animate/LCD.tick + the same invariants over random positive non-decreasing tick schedules")
    rep.assumptions = ["'never becomes inactive' is judged as 'still active after >= 3B steps' (bounded progress)", "one animation per row"]
    return rep.finish(min_distinct=40)


if __name__ == "__main__":
    raise SystemExit(main())
