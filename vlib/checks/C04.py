"""C04 - actuator commands: firmware drives pins exactly as the host simulation predicts; clamping."""
from __future__ import annotations

import json

from .. import engine, fw, witness
from ..common import Report, run_cases, seed, tier
from ..gen import actuators

PROP = "C04"


def run_inrange(case):
    idx, sd, passes = case
    p = actuators.generate((PROP, sd, "in", idx), in_range=True)
    r = engine.differential(p["source"], passes=passes, tol_pins=frozenset(p["tol_pins"]),
                            no_dedupe_pins=frozenset(p["motor_pins"]), want_fw_events=True, start_marker="@start")
    out = {k: r.get(k) for k in ("outcome", "exc", "diag", "divergence", "why", "san_reports", "fingerprint", "n_model_events", "cpp", "fw_nevents")}
    out["source"] = p["source"]
    out["features"] = p["features"]
    out["clamp"] = clamp_monitor(r.get("fw_events") or [], p["servo_bounds"])
    return out


def clamp_monitor(events, servo_bounds):
    """Pure safety monitor on raw pin events: PWM in 0..255, servo commands inside the configured bounds."""
    bad = []
    n = 0
    for t, kind, f in events:
        if kind == "AW":
            n += 1
            if not (0 <= int(f[1]) <= 255):
                bad.append(f"analogWrite({f[0]}, {f[1]}) outside 0..255")
        elif kind == "SERVO_WRITE":
            n += 1
            b = servo_bounds.get(int(f[1])) or servo_bounds.get(str(f[1]))
            if b and not (b[0] - 0.5 <= int(f[2]) <= b[1] + 0.5):
                bad.append(f"servo on pin {f[1]} commanded to {f[2]} deg outside [{b[0]}, {b[1]}]")
        elif kind == "SERVO_WRITEUS":
            n += 1
            b = servo_bounds.get(int(f[1])) or servo_bounds.get(str(f[1]))
            if b and not (b[2] - 0.5 <= int(f[2]) <= b[3] + 0.5):
                bad.append(f"servo on pin {f[1]} commanded to {f[2]} us outside [{b[2]}, {b[3]}]")
        elif kind == "DELAY":
            if int(f[0]) > 600000:
                bad.append(f"delay({f[0]}) produced by an actuator call (negative duration cast to unsigned?)")
    return {"bad": bad[:5], "checked": n}


def run_outrange(case):
    idx, sd, passes = case
    p = actuators.generate((PROP, sd, "out", idx), in_range=False)
    t = engine.transpile(p["source"])
    out = {"source": p["source"], "features": p["features"], "transpile": t["status"], "exc": t.get("exc")}
    if t["status"] != "ok":
        return out
    with fw.Scratch() as wd:
        f = engine.firmware(t["cpp"], wd, passes=passes)
    out["cpp"] = t["cpp"]
    out["fw_status"] = f["status"]
    out["diag"] = engine.first_diag_line(f.get("diag", ""))
    out["clamp"] = clamp_monitor(f["events"], p["servo_bounds"])
    out["san"] = f.get("san_reports", [])
    # getter prints must respect the documented ranges too
    vals = []
    for tt, kind, fl in f["events"]:
        if kind == "SER" and len(fl) > 1 and fl[1] != "-":
            vals.append(float(fl[1]))
    out["n_events"] = len(f["events"])
    return out


def main() -> int:
    rep = Report(PROP)
    t = tier()
    sd = seed()
    n_in = 330 if t == "quick" else 2500
    n_out = 120 if t == "quick" else 800
    for case, st, res in run_cases(run_inrange, [(i, sd, (1, 2, 3)[i % 3]) for i in range(n_in)]):
        if st != "ok":
            rep.inconclusive_because(f"case {case} failed: {res[-300:]}")
            continue
        o = res["outcome"]
        rep.count("in-range:" + o)
        for f in res["features"]:
            rep.count("feature:" + f)
        rep.case(res.get("fingerprint"), o == "equal" and (res.get("n_model_events") or 0) >= 5)
        w = {"script.py": res["source"], "sketch.cpp": res.get("cpp") or "", "detail.json": json.dumps({k: res.get(k) for k in ("outcome", "divergence", "why", "diag", "clamp", "san_reports")}, indent=1, default=str)}
        rep.count("raw_pin_events_range_checked", res["clamp"]["checked"])
        for b in res["clamp"]["bad"]:
            rep.violation("in-range history: " + b, w, key="clamp-inrange")
        if o == "equal":
            rep.count("compared_events", res.get("n_model_events") or 0)
            if len(rep.samples) < 3:
                rep.sample({"script": res["source"][-900:], "events_compared": res.get("n_model_events")})
            continue
        if o in ("py-undefined", "py-budget"):
            rep.count("discarded_host_raised")
            continue
        if o in ("rejected", "internal"):
            rep.violation(f"in-range actuator history was not transpiled: {res.get('exc')}", w, key="rejected:" + str(res.get("exc"))[:40])
            continue
        if o == "inconclusive":
            rep.count("inconclusive_cases")
            continue
        d = res.get("divergence") or {}
        rep.violation(f"firmware differs from the host classes ({o}): {d.get('why', res.get('why') or res.get('diag'))} fw={d.get('fw')} py={d.get('py')}", w,
                      key=f"{o}:{d.get('why', '')}")
    for case, st, res in run_cases(run_outrange, [(i, sd, 1 + i % 2) for i in range(n_out)]):
        if st != "ok":
            rep.inconclusive_because(f"case {case} failed: {res[-300:]}")
            continue
        rep.count("out-of-range:" + str(res.get("fw_status") or res["transpile"]))
        rep.case("out:" + str(hash(res["source"])), bool(res.get("clamp", {}).get("checked")))
        w = {"script.py": res["source"], "sketch.cpp": res.get("cpp") or "", "detail.json": json.dumps({k: res.get(k) for k in ("fw_status", "clamp", "san", "diag", "exc")}, indent=1, default=str)}
        if res["transpile"] != "ok":
            continue  # rejecting an out-of-range literal is fine
        if res["fw_status"] != "ok":
            rep.violation(f"firmware for an out-of-range history: {res['fw_status']} {res.get('diag')}", w, key="out:" + res["fw_status"])
            continue
        rep.count("raw_pin_events_range_checked", res["clamp"]["checked"])
        for b in res["clamp"]["bad"]:
            rep.violation("out-of-range command reached a pin unclamped: " + b, w, key="clamp:" + b.split("(")[0][:30])
    witness.check_witnesses(rep)
    rep.rule = ("random operation histories (3-18 ops) over 1-5 declared Led/RGBLed/Servo/DCMotor objects in setup() and the main loop, arguments as "
                "literals or routed through variables; in-range histories: firmware pin/servo/serial/time trace compared with the instrumented host "
                "classes (getter prints after every op; motor duty +-1, servo +-1 at ties, < 1 ms per fractional delay); out-of-range histories: "
                "clamp monitor on raw analogWrite/servo events. non-trivial = traces equal with >= 5 compared events / >= 1 range-checked pin event")
    rep.assumptions = ["RGB fade targets/steps avoid exact .5 interpolation ties (device rounds half away, host round() half to even)",
                       "DCMotor speeds are multiples of 0.01 (|speed| < 1/510 decides coast differently on the device)"]
    return rep.finish(min_distinct=40)


if __name__ == "__main__":
    raise SystemExit(main())
