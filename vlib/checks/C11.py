"""C11 - transpiling never runs user code, has no side effects, fails only cleanly (audit-hook monitor)."""
from __future__ import annotations

import json
import os
import zlib
import re
import subprocess
import tempfile
from pathlib import Path

from ..common import PY, REPO, VERIF, Report, rng_for, run_cases, seed, tier
from ..gen import corpus

PROP = "C11"
CHILD = VERIF / "vlib" / "audit_child.py"

PRELUDE = corpus.HDR + """led = Led(13)
rgb = RGBLed(9, 10, 11)
sv = Servo(6)
m = DCMotor(2, 4, 5)
bz = Buzzer(8)
lcd = LCD(rs=12, en=11, d4=5, d5=4, d6=3, d7=2, backlight_pin=9)
items = [1, 2, 3]
"""

TEMPLATES = [
    "q = Led({P})", "led.set_brightness({P})", "led.blink({P}, times={P})", "led.fade_in(step={P})", "led.flash_pattern({P})",
    "led.flash_pattern([1, {P}])", "sleep({P})", "if {P}:\n    led.on()", "while {P}:\n    led.on()", "for i in range({P}):\n    led.on()",
    "x = [{P}, 1]", "x = [i for i in range({P})]", "mon.write(f\"v={{{P}}}\")", "mon.write({P})", "@{P}\ndef f():\n    return 1\n",
    "def f(a={P}):\n    return a\n", "items[{P}] = 1", "x = items[{P}]", "u = Ultrasonic(2, 3, sensor={P})", "lcd.glyph(0, {P})",
    "lcd.glyph({P}, [0, 0, 0, 0, 0, 0, 0, 0])", "rgb.set_color({P}, 0, 0)", "rgb.fade(1, 2, 3, duration_ms={P})", "s2 = Servo(7, min_angle={P})",
    "sv.write({P})", "b = Button({P})", "b = Button(2, on_click={P})", "pot = Potentiometer({P})", "l2 = LCD(i2c_addr={P})",
    "l2 = LCD(rs={P}, en=1, d4=2, d5=3, d6=4, d7=5, cols={P})", "lcd.write({P}, 0, \"x\")", "lcd.write(0, 0, {P})", "lcd.line(0, \"x\", align={P})",
    "lcd.progress(0, {P}, max_value={P})", "lcd.animate(\"scroll\", 0, {P}, speed_ms={P})", "lcd.animate({P}, 0, \"x\")", "lcd.display({P})",
    "lcd.brightness({P})", "bz.play_tone({P})", "bz.beep({P}, on_ms={P})", "bz.sweep(1, 2, duration_ms={P}, steps={P})", "bz.melody({P})",
    "bz.melody(\"siren\", tempo={P})", "pin_mode({P}, OUTPUT)", "digital_write(1, {P})", "x = analog_read({P})", "target({P})",
    "x = {P}", "x = 1\nx += {P}", "def g(a):\n    return {P}\ny = g(1)", "a, b = {P}, 1", "m2 = SerialMonitor({P})", "m3 = DCMotor({P}, 2, 3)",
    "m.set_speed({P})", "m.ramp({P}, {P})", "x = len({P})", "x = abs({P})", "x = min({P}, 1)", "x = int({P})", "x = str({P})",
    "def g(a):\n    q = [a, {P}]\n    return 1\ny = g([1, 2])", "def g(a):\n    return a\ny = g([{P}, 2])", "def g(a, b):\n    return a\ny = g({P}, [1])",
    "def g(a):\n    a.append({P})\n    return a\ny = g([1])", "def g(a):\n    return g({P})\ny = g(1)", "def g(a):\n    return a + 1\ny = g({P})\nz = g([1, 2])",
    "ghost.on()\nx = {P}", "ghost.set_brightness({P})", "def mk():\n    inner = Led(3)\n    return 1\ndef use():\n    inner.on()\n    return {P}\nq = mk()",
    "from Reduino_pins import {P}", "from Reduinoconfig import PIN\nx = {P}", "from Reduino.Extras import thing\nx = {P}", "import Reduino_board\nx = {P}",
    "a, b = {P},", "a, b = 1, {P}, 3", "a, b = ()\nx = {P}", "a, (b, c) = {P}, (2, 3)", "a, *b = 1, {P}", "x = y = {P}", "[a, b] = {P}, 2", "a, b = b, a = {P}, 1",
    "x: int = {P}", "x, = {P},", "a = b = c, d = {P}, 2", "for a, b in {P}:\n    led.on()", "a, b = [{P}, 2]", "(a), (b) = {P}, 1", "items[0], a = {P}, 1",
    "x = 1 if {P} else 2", "try:\n    x = {P}\nexcept {P}:\n    x = 2", "items.append({P})", "x = -{P}", "x = not {P}", "x = 1 < {P} < 3",
]

PAYLOADS = [
    "__import__('os').system('touch CANARY')", "open('CANARY', 'w')", "(lambda: open('CANARY', 'w'))()",
    "[c for c in ().__class__.__base__.__subclasses__()]", "(yy := open('CANARY', 'w'))",
    "__import__('os').environ.__setitem__('REDU_CANARY', '1')", "exec(\"open('CANARY','w')\")", "eval('1+1')",
    "getattr(__builtins__, 'open')('CANARY', 'w')", "__import__('subprocess').run(['touch', 'CANARY'])",
    "__import__('socket').socket()", "print(open('CANARY','w'))", "items.__class__.__mro__", "led.__dict__",
    "9**9**9**9", "1<<10**9", "'a'*10**9", "10**10**10", "2**-1", "0**-1", "1/0", "1//0", "1%0", "1.0//0", "-1**0.5", "1e400", "1e308*10",
    "float('nan')", "float('inf')", "int('x')", "int('9'*5000)", "int(1e400)", "len(5)", "abs('x')", "max()", "min('a', 1)", "str(b'x')",
    "max([])", "len(((),))", "1 < 'a'", "-'a'", "not []", "[1]*10**9", "'%s' % 1", "1 if [] else 2", "f'{1!r:>{2}}'", "f'{'", "...", "None",
    "b'bytes'", "1j", "{1: 2}", "{1, 2}", "*items", "**items", "yield 1", "await x", "lambda: 0", "x.y.z", "a[1:2]", "a if b else c",
    "(" * 300 + "1" + ")" * 300, "(" * 5000 + "1" + ")" * 5000, "-" * 3000 + "1", "not " * 2000 + "1", "a" * 100000, "1+" * 3000 + "1",
    "[" * 200 + "]" * 200, "'\\x00'", "'\\ud800'", "\"\\\"\"", "'''\nmulti\nline\n'''", "0x7fffffffffffffff*2", "0o777", "1_000_000", "0b101",
    "'{0.__class__}'.format(1)", "'{0.__class__.__mro__}'.format(1)", "'{0.__hash__}'.format(0)", "'{.real.__class__}'.format(1)", "'{a.__class__}'.format(a=1)",
    "'{0[0].__doc__}'.format(['x'])", "'{}-{}'.format(1, 2)", "'{0.__init__.__globals__}'.format(led)", "'%(a)s' % {'a': 1}", "'{!r}'.format(open)", "str.format('{0.__class__}', 1)",
    "format(1, '>5')", "'{:>{w}}'.format(1, w=5)", "(1).__class__", "(1).__class__.__name__", "''.join.__self__.__class__", "type(1)", "repr(len)", "str(print)", "f'{len}'", "f'{(1).__class__}'",
    "(-7) ** 90000000", "(-3) ** (9 ** 9)", "(-2) ** 10 ** 9", "(-1) ** 10 ** 9", "-7 ** 90000000", "(0 - 5) ** 10 ** 8", "2 ** (2 ** 40)", "(2 ** 4000) ** 4000", "3 ** 9000 * 3 ** 9000",
    "pow(7, 7 ** 9)", "pow(2, 10)", "pow(2, 0.5)", "pow(10, 10 ** 7)", "round(1e308)", "round(2.5)", "round(2.567, 1)", "abs(-10 ** 400)", "int(10 ** 400)", "float(10 ** 400)",
    "divmod(7, 0)", "min(1, 2, key=len)", "sum([1, 2])", "max(range(10 ** 9))", "len(range(10 ** 12))", "list(range(10 ** 9))", "sorted([3, 1])", "hex(255)", "chr(65)", "ord('A')",
    "[31.0, 0, 0, 0, 0, 0, 0, 0]", "[62 / 2, 0, 0, 0, 0, 0, 0, 0]", "[float(4), 1, 2, 3, 4, 5, 6, 7]", "[1, 2, 3, 4, 5, 6, 7, 8.5]", "[True, False, 1, 0, 1, 0, 1, 0]", "[1e400, 0, 0, 0, 0, 0, 0, 0]",
    "[-1, 256, 0, 0, 0, 0, 0, 0]", "['1', 0, 0, 0, 0, 0, 0, 0]", "[[1], 0, 0, 0, 0, 0, 0, 0]", "[None] * 8", "[1, 2, 3]", "(1, 2, 3, 4, 5, 6, 7, 8)", "[1.5, 2.5]", "[0.0, 1.0, 128.0]",
    "2.0", "31.0", "1e3", "-0.0", "0x10", "1_0", "01", "1.", ".5", "5.0 // 2", "7 % 2.0", "True + True", "-True", "~5", "not 5", "5 if 0.0 else 6.5",
    "True", "\"A0\"", "A0", "\"HC-SR04\" if 1 else 2", "[1, [2, [3]]]", "(1, 2, 3, 4, 5, 6, 7, 8)", "[0.5] * 8", "\"left\" + \"\"",
]


def gen_inputs(t, sd):
    rng = rng_for(PROP, sd)
    inputs = []
    tmp = tempfile.gettempdir()

    def add(kind, text, canary=None, enc=None):
        d = {"kind": kind, "text": text}
        if canary:
            d["canary"] = canary
        if enc:
            d["enc"] = enc
        inputs.append(d)

    # (i) supported scripts
    for s in corpus.mixed((PROP, sd), 20 if t == "quick" else 200, 10 if t == "quick" else 60, 10 if t == "quick" else 60):
        add("supported", s)
    # (i-b) helper bodies x call-site argument types (type-specialised variants, including ones that must be rejected)
    bodies = ["y = [x, 1]", "y = x + 1", "y = x[0]", "x.append(1)", "y = len(x)", "y = x * 2", "if x:\n        y = 1", "y = [x]", "y = x - 1.5",
              "y = f\"{x}\"", "for k in range(x):\n        y = k", "y = x\n    y = [1]", "x = [x]", "y = x == 1"]
    args = ["1", "1.5", "\"s\"", "[1, 2]", "[\"a\"]", "[1.5]", "True", "[]", "[[1], [2]]", "(1, 2)"]
    for bi, body in enumerate(bodies):
        for ai, arg in enumerate(args):
            if t == "quick" and (bi * 7 + ai) % 3 != sd % 3:
                continue
            add(f"variants:{bi}:{ai}", PRELUDE + f"def hv(x):\n    {body}\n    return 1\nr1 = hv({arg})\nr2 = hv(2)\nmon.write(r1)\n")
    # (ii) position x payload
    pairs = [(a, b) for a in range(len(TEMPLATES)) for b in range(len(PAYLOADS))]
    rng.shuffle(pairs)
    if t == "quick":
        # every template and every payload at least 3 times
        chosen = set()
        for a in range(len(TEMPLATES)):
            for b in rng.sample(range(len(PAYLOADS)), 4):
                chosen.add((a, b))
        for b in range(len(PAYLOADS)):
            for a in rng.sample(range(len(TEMPLATES)), 3):
                chosen.add((a, b))
        # type-directed pairs always included: list-shaped payloads in list positions, numeric payloads in numeric positions
        list_pos = [a for a, tpl in enumerate(TEMPLATES) if "glyph(0" in tpl or "flash_pattern({P})" in tpl or tpl.startswith("x = {P}") or "len({P})" in tpl]
        list_pay = [b for b, pl in enumerate(PAYLOADS) if pl.startswith(("[", "(1, 2")) and len(pl) < 60]
        num_pos = [a for a, tpl in enumerate(TEMPLATES) if tpl in ("sleep({P})", "led.set_brightness({P})", "x = {P}", "sv.write({P})", "bz.play_tone({P})", "mon.write({P})")]
        num_pay = [b for b, pl in enumerate(PAYLOADS) if pl.startswith(("(-", "-7 **", "(0 - 5)", "2 ** (2", "(2 ** 4000)", "3 ** 9000", "pow(", "round(", "abs(", "int(", "float(", "divmod", "sum(", "max(", "min(", "len(range", "2.0", "31.0", "1e3", "5.0"))]
        chosen.update((a, b) for a in list_pos for b in list_pay)
        chosen.update((a, b) for a in num_pos for b in num_pay)
        pairs = sorted(chosen)
    for n, (a, b) in enumerate(pairs):
        canary = os.path.join(tmp, f"reduverif-canary-{os.getpid()}-{n}")
        payload = PAYLOADS[b].replace("CANARY", canary)
        body = TEMPLATES[a].replace("{P}", payload)
        where = n % 3
        if where == 0:
            text = PRELUDE + body + "\n"
        elif where == 1:
            text = PRELUDE + "while True:\n" + "\n".join("    " + l for l in body.splitlines()) + "\n"
        else:
            text = PRELUDE + "def helper():\n" + "\n".join("    " + l for l in body.splitlines()) + "\n    return 0\nhelper()\n"
        add(f"payload:{a}:{b}", text, canary if "CANARY" in PAYLOADS[b] else None)
    # (ii-b) imports / directives / do-nothing statements in every block context (the line loop has one skip path per kind)
    for L, c, text in corpus.housekeeping_scripts():
        add(f"housekeeping:{c}", text)
    # (ii-c) user functions named like the helpers the transpiler knows (tables keyed by name must not be written)
    for nm in ("max", "min", "abs", "len", "int", "float", "str", "round", "map", "constrain", "sleep", "range", "bool", "pow", "sum"):
        add(f"shadow:{nm}", PRELUDE + f"def {nm}(a, b):\n    return a * 1.5\nr = {nm}(2, 3)\nmon.write(r)\n")
        add(f"shadow-str:{nm}", PRELUDE + f"def {nm}(a):\n    return \"s\" + a\nr = {nm}(\"x\")\nmon.write(r)\n")
    # (ii-d) every call of the device API with ONE argument given through a variable and the others as literals (and the reverse):
    # code that validates "constants" must cope with a mix of folded numbers and expression text
    from .C08 import specs
    for sp in specs():
        names = list(sp["values"])
        for vi, vn in enumerate(names):
            for mode in ("one-var", "one-lit"):
                if t == "quick" and (vi + len(sp["name"]) + (mode == "one-lit")) % 2:
                    continue
                pre, parts = [], []
                for n in names:
                    as_var = (n == vn) if mode == "one-var" else (n != vn)
                    if as_var and sp["values"][n] != "cb":
                        pre.append(f"V_{n} = {sp['values'][n]}")
                        parts.append(f"{n}=V_{n}")
                    else:
                        parts.append(f"{n}={sp['values'][n]}")
                add(f"mixed-args:{sp['name']}", corpus.HDR + "\n".join(pre) + "\n" + sp["prelude"] + sp["call"].format(args=", ".join(parts)) + "\n")
    # (ii-e) deep helper chains, every level calling the next one two or three times (work must stay proportional to the text, also when
    # the leaf's body changes the type the argument is specialised to)
    for leaf in ('"s" + v', "v * 0.5", "v + 1", 'str(v) + "x"', "[v]", "v and 1"):
        for depth, calls in ((22, 2), (14, 3)):
            Lc = [corpus.HDR, f"def f{depth}(v):", f"    return {leaf}", ""]
            for d in range(depth - 1, -1, -1):
                Lc += [f"def f{d}(v):", "    return " + " + ".join([f"f{d + 1}(v)"] * calls), ""]
            add(f"deep-chain:{leaf}", "\n".join(Lc + ["r = f0(1)", "mon.write(r)"]) + "\n")
            # ... and with every level combining its OWN parameter with the callee's results (the type each level is specialised to
            # then depends on what the leaf does to its argument)
            Lc = [corpus.HDR, f"def f{depth}(v):", f"    return {leaf}", ""]
            for d in range(depth - 1, -1, -1):
                Lc += [f"def f{d}(v):"] + [f"    a{i} = f{d + 1}(v)" for i in range(calls)] + ["    return " + " + ".join([f"a{i}" for i in range(calls)] + ["v"]), ""]
            add(f"deep-chain-own-param:{leaf}", "\n".join(Lc + ["r = f0(1)", "mon.write(r)"]) + "\n")
    # (ii-f) every numeric parameter of the device API on its own with a value that overflows, is infinite or not a number
    for sp in specs():
        for vn in sp["values"]:
            if not sp["values"][vn].replace(".", "", 1).isdigit():
                continue
            for bad in ("1e999", "-1e999", "1e308 * 10", "float('inf')", "float('nan')", "10 ** 400", "-(10 ** 400)", "2 ** 63", "0.1 ** 400"):
                if t == "quick" and (zlib.crc32(f"{sp['name']}|{vn}|{bad}".encode()) + sd) % 3:
                    continue
                parts = [f"{n}={(bad if n == vn else sp['values'][n])}" for n in sp["values"]]
                add(f"numeric-edge:{sp['name']}:{vn}", corpus.HDR + sp["prelude"] + sp["call"].format(args=", ".join(parts)) + "\n")
    # (iii) arbitrary valid Python: the repository's own sources and tests, and mutated copies
    files = sorted((REPO / "src").rglob("*.py")) + sorted((REPO / "tests").rglob("*.py"))
    for f in files:
        try:
            txt = f.read_text()
        except Exception:  # noqa: BLE001
            continue
        if len(txt) > 60000:
            txt = txt[:60000]
        add("python:" + f.name, txt)
        lines = txt.splitlines()
        for k in range(1 if t == "quick" else 6):
            r = rng_for(PROP, sd, f.name, k)
            ls = list(lines)
            for _ in range(r.randint(1, 12)):
                if not ls:
                    break
                op = r.choice(["del", "swap", "dup", "indent", "cut"])
                i = r.randrange(len(ls))
                if op == "del":
                    del ls[i]
                elif op == "swap":
                    j = r.randrange(len(ls))
                    ls[i], ls[j] = ls[j], ls[i]
                elif op == "dup":
                    ls.insert(i, ls[i])
                elif op == "indent":
                    ls[i] = "    " + ls[i]
                else:
                    ls[i] = ls[i][: r.randint(0, max(0, len(ls[i])))]
            add("mutated:" + f.name, "\n".join(ls[:600]) + "\n")
    # (iv) noise
    n_noise = 150 if t == "quick" else 6000
    toks = ["while", "True", ":", "\n", "    ", "if", "else", "elif", "for", "in", "range", "(", ")", "[", "]", "=", "==", "+", "-",
            "*", "/", "//", "%", "**", "led", ".", "on", "off", "Led", "LCD", "sleep", "target", "\"", "'", "#", "1", "0.5", ",", "def",
            "return", "try", "except", "break", "continue", "mon", "write", "f\"", "{", "}", "\\", "\t", "\r\n", "\x00", "﻿",
            "import", "from", "Reduino", "lambda", "@", "é", "端", "\U0001F600", "and", "or", "not", "None", "A0", "x", "y"]
    for k in range(n_noise):
        r = rng_for(PROP, sd, "noise", k)
        mode = k % 5
        if mode == 0:
            add("noise:latin1", bytes(r.randrange(256) for _ in range(r.randint(0, 400))).decode("latin-1"))
        elif mode == 1:
            add("noise:surrogate", bytes(r.randrange(256) for _ in range(r.randint(1, 200))).hex(), enc="surrogateescape")
        elif mode == 2:
            add("noise:tokens", "".join(r.choice(toks) + r.choice(["", " ", " "]) for _ in range(r.randint(1, 120))))
        elif mode == 3:
            lines = (PRELUDE + "while True:\n    led.toggle()\n    sleep(5)\n").splitlines()
            for _ in range(r.randint(1, 6)):
                i = r.randrange(len(lines))
                pos = r.randint(0, len(lines[i]))
                lines[i] = lines[i][:pos] + r.choice(toks) + lines[i][pos:]
            add("noise:spliced", r.choice(["\n", "\r\n", "\r"]).join(lines))
        else:
            add("noise:printable", "".join(chr(r.choice([r.randint(32, 126), 10, 10, 32, 9])) for _ in range(r.randint(0, 500))))
    return inputs


def run_batch(batch):
    """Run one batch of inputs in child processes, restarting after a death; returns list of result dicts."""
    idxs, items = batch
    results = {}
    with tempfile.TemporaryDirectory(prefix="reduverif-c11-") as td:
        ip = Path(td) / "in.json"
        op = Path(td) / "out.jsonl"
        ip.write_text(json.dumps(items))
        start = 0
        guard = 0
        while start < len(items) and guard < len(items) + 2:
            guard += 1
            env = dict(os.environ)
            env["PYTHONHASHSEED"] = "0"
            try:
                p = subprocess.run([PY, str(CHILD), str(ip), str(op), str(start)], capture_output=True, text=True,
                                   timeout=300, env=env)
                rc, err = p.returncode, p.stderr[-500:]
            except subprocess.TimeoutExpired:
                rc, err = "watchdog", ""
            started = None
            finished = False
            if op.exists():
                for line in op.read_text().splitlines():
                    try:
                        d = json.loads(line)
                    except ValueError:
                        continue
                    if d.get("phase") == "start":
                        started = d["i"]
                    elif d.get("phase") == "done":
                        results[d["i"]] = d
                        started = None
                    elif d.get("phase") == "finished":
                        finished = True
            if finished:
                break
            if started is not None:
                results[started] = {"i": started, "outcome": "child-died", "rc": rc, "stderr": err}
                start = started + 1
            else:
                # died outside an input (startup failure)
                return [{"i": i, "outcome": "harness-error", "stderr": err} for i in range(len(items))], idxs
    return [results.get(i, {"i": i, "outcome": "missing"}) for i in range(len(items))], idxs


def main() -> int:
    rep = Report(PROP)
    t = tier()
    sd = seed()
    inputs = gen_inputs(t, sd)
    bs = 25
    batches = [(list(range(k, min(k + bs, len(inputs)))), inputs[k:k + bs]) for k in range(0, len(inputs), bs)]
    for batch, st, res in run_cases(run_batch, batches):
        if st != "ok":
            rep.inconclusive_because(f"batch failed: {res[-200:]}")
            continue
        results, idxs = res
        for r, gi in zip(results, idxs):
            item = inputs[gi]
            kind = item["kind"].split(":")[0]
            oc = r.get("outcome")
            rep.case(f"{gi}:{oc}", oc in ("str", "ValueError", "SyntaxError"))
            rep.count(f"{kind}:{oc}")
            rep.count("compile_only_ast_events", r.get("n_compile", 0))
            w = {"input.txt": item["text"] if item.get("enc") is None else "hex:" + item["text"],
                 "detail.json": json.dumps({"kind": item["kind"], "result": r}, indent=1)}
            if oc in ("harness-error", "missing"):
                rep.inconclusive_because(f"input {gi} not executed: {r.get('stderr', '')[-200:]}")
                continue
            mech = None
            if oc in ("child-died", "timeout"):
                mech = "hang"
                msg = f"transpiler did not terminate promptly ({oc}, rc={r.get('rc')}) on {item['kind']}"
            elif oc not in ("str", "ValueError", "SyntaxError"):
                mech = "internal:" + str(oc)
                msg = f"transpiler raised {oc[4:] if oc.startswith('exc:') else oc} ({r.get('exc')}) instead of ValueError/SyntaxError on {item['kind']}"
            if mech:
                fid = classify(mech, item, r)
                if fid and fid in rep.open_findings:
                    rep.known(fid, msg, w)
                else:
                    rep.violation(msg, w, key=mech)
            if r.get("events"):
                rep.violation(f"audit events outside the whitelist during parse/emit: {r['events'][:3]} on {item['kind']}", w,
                              key="audit:" + r["events"][0][0])
            if r.get("host_leak"):
                rep.violation(f"the firmware text contains the repr of a host object ({r['host_leak']!r}): an attribute of a host object was evaluated "
                              f"for the script ({item['kind']})", w, key="host-object-leak")
            if r.get("canary"):
                rep.violation(f"canary side effect observed: user expression was executed ({item['kind']})", w, key="canary")
            if r.get("env_changed"):
                rep.violation("os.environ changed during transpilation", w, key="env")
            if r.get("state_changed"):
                rep.violation("module-level transpiler state changed during transpilation", w, key="modstate")
            if r.get("cpu", 0) > 5.0 and oc not in ("timeout", "child-died"):
                rep.violation(f"transpilation used {r['cpu']} CPU seconds on {item['kind']}", w, key="slow")
            if len(rep.samples) < 5 and kind == "payload" and gi % 97 == 0:
                rep.sample({"kind": item["kind"], "outcome": oc, "text_tail": item["text"][-200:]})
    if not rep.samples:
        rep.sample({"kind": inputs[0]["kind"], "text_head": inputs[0]["text"][:300]})
    rep.rule = ("inputs = generated supported scripts + (argument position x hostile payload) product placed at top level / "
                "in the main loop / in a helper + the repository's own .py files and mutated copies + byte noise, token soup, "
                "spliced tokens, lone surrogates; each input is transpiled in a child under sys.addaudithook (whitelist: compile-to-AST), "
                "canary files, environment and module-state comparison, 6 s virtual-CPU timer and RLIMIT_CPU. "
                "non-trivial = the transpiler produced one of the three allowed outcomes")
    rep.extra["templates"] = len(TEMPLATES)
    rep.extra["payloads"] = len(PAYLOADS)
    rep.assumptions = ["CPU time (ITIMER_VIRTUAL / RLIMIT_CPU), never wall time, decides 'terminates promptly' (bound: 6 CPU seconds)"]
    return rep.finish(min_distinct=100)


def classify(mech, item, r):
    text = item["text"]
    if mech == "hang" and re.search(r"\*\*\s*\d+\s*\*\*|<<\s*\d+\s*\*\*", text):
        return "KF-fold-unbounded-pow"
    if mech in ("internal:exc:RecursionError", "internal:exc:MemoryError") and re.search(r"(\(|\[|not |-|1\+){100,}", text):
        return "KF-deep-nesting-recursionerror"
    if mech == "internal:exc:OverflowError" and re.search(r"inf|1e400|1e308|<<\s*\d+\s*\*\*|\*\*\s*\d+\s*\*\*", text):
        return "KF-overflow-nonfinite-constant"
    return None


if __name__ == "__main__":
    raise SystemExit(main())
