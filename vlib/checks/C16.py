"""C16 - buzzer: every sound is bounded, silent when it should be, follows the score.
Tone-protocol state machine fed by the firmware event log (the host Buzzer is a no-op stub)."""
from __future__ import annotations

import json

from .. import engine, fw
from ..common import Report, rng_for, run_cases, seed, tier

PROP = "C16"

# pinned copy of the seven scores (trusted base; the repository documents them only qualitatively)
SCORES = {
    "success": (240.0, [(523.25, 0.5), (659.25, 0.5), (783.99, 1.0)]),
    "error": (200.0, [(329.63, 0.5), (261.63, 1.5)]),
    "startup": (200.0, [(261.63, 0.5), (329.63, 0.5), (392.0, 0.5), (523.25, 1.0)]),
    "notify": (240.0, [(783.99, 0.25), (0.0, 0.25), (783.99, 0.5)]),
    "alarm": (200.0, [(523.25, 0.5), (392.0, 0.5)] * 4),
    "scale_c": (200.0, [(261.63, 0.5), (293.66, 0.5), (329.63, 0.5), (349.23, 0.5), (392.0, 0.5), (440.0, 0.5), (493.88, 0.5), (523.25, 1.0)]),
    "siren": (180.0, [(659.25, 0.75), (523.25, 0.75)] * 3),
}

HDR = """from Reduino import target
target("COM3")
from Reduino.Actuators import Buzzer
from Reduino.Communication import SerialMonitor
from Reduino.Utils import sleep

mon = SerialMonitor(9600)
"""

FREQS = [-100, 0, 0.4, 31, 440, 4000.5, 262, 1000]
DURS = [-5, 0, 1, 50, 20, 7.5]
COUNTS = [-1, 0, 1, 2, 7, 3, 42, 48, 56, 83, 98]   # (larger counts: i/(steps-1) must reach exactly 1 at the last step)
TEMPOS = [-60, 0, 30, 240, 120, 500, 97.5, 62.5, 0.75, 1.5]


def lit(x):
    return repr(x)


def gen(rng, positive_only):
    lines = HDR.splitlines()
    nb = rng.choice([1, 1, 2])
    buzzers = []
    df_text = {}
    for i in range(nb):
        pin = [8, 12, 7][i]
        df = rng.choice([None, 880, 220.5])
        if not positive_only and rng.random() < 0.25:
            df = rng.choice([0, -5])   # a default frequency <= 0: beep() without a frequency must stay silent until a tone has sounded
        if df and df > 0 and rng.random() < 0.3:
            lines.append(f"df{i} = {df}")  # the default frequency named by a user variable
            lines.append(f"bz{i} = Buzzer({pin}, default_frequency=df{i})")
            df_text[i] = f"df{i}"
        else:
            lines.append(f"bz{i} = Buzzer({pin}" + (f", default_frequency={df}" if df is not None else "") + ")")
        buzzers.append((f"bz{i}", pin, float(df) if df is not None else 440.0))
    calls = []
    nvar = [0]
    body = []
    defs = []

    def arg(v):
        if rng.random() < 0.45:
            nvar[0] += 1
            # (short letter+digit names - f1, a4, b2 ... - are ordinary variables)
            nm = f"{rng.choice('qfabdceg')}{nvar[0]}"
            body.append(f"{nm} = {lit(v)}")
            return nm, True
        return lit(v), False

    def pick(pool, pos_pool=None):
        if positive_only:
            cand = [x for x in pool if x > 0]
            return rng.choice(cand)
        return rng.choice(pool)

    in_loop = rng.random() < 0.3
    n_calls = rng.randint(3, 10)
    for k in range(n_calls):
        name, pin, df = rng.choice(buzzers)
        kind = rng.choice(["play", "play_dur", "stop", "beep", "beep_default", "sweep", "melody"])
        c = {"k": k, "bz": name, "pin": pin, "kind": kind, "runtime": False}
        if kind == "play":
            f = pick(FREQS)
            a, rt = arg(f)
            body.append(f"{name}.play_tone({a})")
            c.update(freq=f, runtime=rt)
        elif kind == "play_dur":
            f, d = pick(FREQS), pick(DURS)
            a, rt1 = arg(f)
            b, rt2 = arg(d)
            body.append(f"{name}.play_tone({a}, {b})" if rng.random() < 0.5 else f"{name}.play_tone({a}, duration_ms={b})")
            c.update(freq=f, dur=d, runtime=rt1 or rt2, dur_runtime=rt2)
        elif kind == "stop":
            body.append(f"{name}.stop()")
        elif kind in ("beep", "beep_default"):
            on, off, t = pick(DURS), pick(DURS), pick(COUNTS)
            a2, r2 = arg(on)
            a3, r3 = arg(off)
            a4, r4 = arg(t)
            if kind == "beep":
                f = pick(FREQS)
                a1, r1 = arg(f)
                form = rng.choice([f"{name}.beep({a1}, on_ms={a2}, off_ms={a3}, times={a4})", f"{name}.beep(frequency={a1}, times={a4}, off_ms={a3}, on_ms={a2})"])
                c.update(freq=f)
            else:
                r1 = False
                form = f"{name}.beep(on_ms={a2}, off_ms={a3}, times={a4})"
                c.update(freq=None)
            body.append(form)
            c.update(on=on, off=off, times=t, runtime=r1 or r2 or r3 or r4, dur_runtime=r2 or r3)
        elif kind == "sweep":
            s, e, d, st = pick(FREQS), pick(FREQS), pick(DURS + [100]), pick(COUNTS)
            a1, r1 = arg(s)
            a2, r2 = arg(e)
            a3, r3 = arg(d)
            a4, r4 = arg(st)
            body.append(f"{name}.sweep({a1}, {a2}, duration_ms={a3}, steps={a4})")
            c.update(start=s, end=e, dur=d, steps=st, runtime=r1 or r2 or r3 or r4, dur_runtime=r3)
        else:
            m = rng.choice(sorted(SCORES))
            spelled = rng.choice([m, m, m.upper(), m.capitalize(), m.title()])
            if rng.random() < 0.5:
                body.append(f"{name}.melody(\"{spelled}\")")
                c.update(melody=m, tempo=None)
            else:
                tp = pick(TEMPOS)
                a, rt = arg(tp)
                body.append(f"{name}.melody(\"{spelled}\", tempo={a})")
                c.update(melody=m, tempo=tp, runtime=rt)
        if rng.random() < 0.2 and not in_loop:
            # the call is made from inside a user helper: the buzzer's state variables are the same ones
            call_line = body.pop()
            defs.extend([f"def act{k}():", "    " + call_line, "    return 1", ""])
            body.append(f"r{k} = act{k}()")
        body.append(f"mon.write(\"@{k}\")")
        body.append(f"mon.write(int({name}.get_state()))")
        body.append(f"mon.write({name}.get_frequency())")
        body.append(f"mon.write({name}.get_last_frequency())")
        if rng.random() < 0.35:
            # the same getters through freshly assigned variables: a variable holds what the getter returned (fractions included)
            body.append(f"gf{k} = {name}.get_frequency()")
            body.append(f"mon.write(gf{k})")
            body.append(f"gl{k} = {name}.get_last_frequency()")
            body.append(f"mon.write(gl{k})")
            c["via_var"] = True
        calls.append(c)
    rebind = None
    if defs and rng.random() < 0.5 and not any(".stop()" in d for d in defs):
        # the helpers are written ABOVE the buzzer declarations (names are looked up when the helper runs); a stop() in such a
        # helper is the known finding device-call-in-function-before-declaration, so those stay below
        k0 = len(HDR.splitlines())
        lines[k0:k0] = defs
    else:
        lines += defs
    if not in_loop and nb == 1 and len(calls) >= 4 and rng.random() < 0.3 and not defs:
        # the same buzzer name re-bound to another pin half-way: earlier calls drive the first pin, later calls the new one
        cut = len(calls) // 2
        new_pin = 10
        pos = next(i for i, ln in enumerate(body) if ln == f'mon.write("@{cut - 1}")') + 4
        df = buzzers[0][2]
        body.insert(pos, f"bz0 = Buzzer({new_pin}" + (f", default_frequency={df_text.get(0, df)}" if df != 440.0 else "") + ")")
        for c in calls[cut:]:
            c["pin"] = new_pin
        calls[cut]["_rebind_from"] = buzzers[0][1]
        rebind = ("bz0#2", new_pin, df)
    if in_loop:
        lines.append("while True:")
        lines += ["    " + b for b in body]
        lines.append("    sleep(5)")
    else:
        lines += body
    bmap = {b[0]: b for b in buzzers}
    if rebind:
        bmap[rebind[0]] = rebind
    return "\n".join(lines) + "\n", calls, bmap, in_loop


def tone_of(f):
    return int(float(f) + 0.5)


def f32(x):
    import struct

    return struct.unpack("f", struct.pack("f", float(x)))[0]


def monitor(events, calls, buzzers, in_loop):
    """Replay the event log against the protocol state machine. Returns list of (key, message)."""
    problems = []
    state = {b[1]: {"sounding": False, "cur": 0.0, "last": f32(b[2]), "exact": True} for b in buzzers.values()}
    # split events into segments per marker
    segs = []
    cur = []
    started = not in_loop
    for t, kind, f in events:
        if kind == "PASS":
            if not in_loop or f[0] != "0":
                break  # setup()-only scripts end here; in the main loop only the first pass is judged call by call
            started = True
            cur = []
            continue
        if not started:
            continue
        if kind == "SER" and f and f[0].startswith("@"):
            segs.append((int(f[0][1:]), cur))
            cur = []
            continue
        cur.append((t, kind, f))
    if in_loop:
        segs = segs[: len(calls)]
    getters = {}
    # getter prints follow each marker: collect the three SER values that start the next segment
    for i, (k, seg) in enumerate(segs):
        nxt = segs[i + 1][1] if i + 1 < len(segs) else cur
        allv = [f for (t, kind, f) in nxt if kind == "SER"]
        vals = allv[:3]
        getters[k] = vals
        if k < len(calls) and calls[k].get("via_var") and len(allv) >= 5:
            if allv[3][1] != allv[1][1] or allv[4][1] != allv[2][1]:
                problems.append(("getter-via-variable", f"call #{k}: get_frequency()/get_last_frequency() printed {allv[1][1]}/{allv[2][1]} directly but {allv[3][1]}/{allv[4][1]} "
                                 "after being stored in a variable"))
    seen = 0
    for k, seg in segs:
        if k >= len(calls):
            break
        c = calls[k]
        seen += 1
        pin = c["pin"]
        if "_rebind_from" in c:
            # the device keeps one set of state variables per buzzer name across a re-declaration
            state[pin]["last"] = state[c["_rebind_from"]]["last"]
            state[pin]["exact"] = state[c["_rebind_from"]]["exact"]
            c["_last"] = state[pin]["last"]
            c["_last_exact"] = state[pin]["exact"]
        st = state[pin]
        ev = [(t, kind, f) for (t, kind, f) in seg if (kind in ("TONE", "NOTONE") and int(f[0]) == pin) or kind == "DELAY"]
        tones = [int(f[1]) for (t, kind, f) in ev if kind == "TONE"]
        delays = [int(f[0]) for (t, kind, f) in ev if kind == "DELAY"]
        # replay sounding state
        for t, kind, f in ev:
            if kind == "TONE":
                st["exact"] = False
                st["sounding"] = True
                st["cur"] = float(f[1])
                st["last"] = float(f[1])
            elif kind == "NOTONE":
                st["sounding"] = False
                st["cur"] = 0.0
        label = f"call #{k} {c['kind']} {json.dumps({x: c[x] for x in c if x not in ('k', 'bz', 'pin', 'kind')})}"
        for d in delays:
            if d > 60000:
                problems.append(("unbounded-delay" + (":runtime" if c.get("dur_runtime") else ":literal"), f"{label}: delay({d}) ms"))
        kind = c["kind"]
        expect_silent = None
        if kind == "play":
            if float(c["freq"]) <= 0:
                if tones:
                    problems.append(("tone-for-nonpositive", f"{label}: tone {tones} started for frequency <= 0"))
                expect_silent = True
            else:
                if tones != [tone_of(c["freq"])]:
                    problems.append(("play-tone", f"{label}: tones {tones}, expected [{tone_of(c['freq'])}]"))
                expect_silent = False
        elif kind == "play_dur":
            if float(c["freq"]) <= 0:
                if tones:
                    problems.append(("tone-for-nonpositive", f"{label}: tone {tones} started for frequency <= 0"))
            elif tones != [tone_of(c["freq"])]:
                problems.append(("play-tone", f"{label}: tones {tones}, expected [{tone_of(c['freq'])}]"))
            if c["dur"] > 0 and delays != ([int(c["dur"])] if int(c["dur"]) > 0 else []):
                problems.append(("play-duration", f"{label}: delays {delays}, expected [{int(c['dur'])}]"))
            expect_silent = True
        elif kind == "stop":
            if tones:
                problems.append(("stop-tone", f"{label}: stop() started a tone"))
            expect_silent = True
        elif kind in ("beep", "beep_default"):
            freq = c["freq"] if c["freq"] is not None else c.get("_last_before")
            n = max(0, int(c["times"]))
            if c["freq"] is None:
                freq_val = None  # last frequency: checked through the tone value recorded below
            if (c["freq"] is not None and float(c["freq"]) <= 0) or (c["freq"] is None and c.get("_last_exact") and float(c["_last"]) <= 0):
                if tones:
                    problems.append(("tone-for-nonpositive", f"{label}: tone {tones} started for frequency <= 0 (last/default frequency {c.get('_last')})"))
            else:
                if len(tones) != n:
                    problems.append(("beep-count", f"{label}: sounded {len(tones)} times, expected {n}"))
                if c["freq"] is not None and any(tn != tone_of(c["freq"]) for tn in tones):
                    problems.append(("beep-freq", f"{label}: tones {tones}, expected all {tone_of(c['freq'])}"))
                if c["freq"] is None and tones and any(tn != tone_of(c["_last"]) for tn in tones):
                    problems.append(("beep-default-freq", f"{label}: tones {tones}, expected the last frequency {c['_last']}"))
            if c["on"] >= 0 and c["off"] >= 0:
                want = []
                for i in range(n):
                    if int(c["on"]) > 0:
                        want.append(int(c["on"]))
                    if i + 1 < n and int(c["off"]) > 0:
                        want.append(int(c["off"]))
                if delays != want:
                    problems.append(("beep-gaps", f"{label}: delays {delays}, expected {want}"))
            expect_silent = True
        elif kind == "sweep":
            steps = max(1, int(c["steps"]))
            s, e = max(0.0, float(c["start"])), max(0.0, float(c["end"]))
            exp = []
            for i in range(steps):
                prog = 1.0 if steps == 1 else i / (steps - 1.0)
                fr = s + (e - s) * prog
                if fr > 0:
                    exp.append(fr)
            if len(tones) != len(exp):
                problems.append(("sweep-count", f"{label}: {len(tones)} tones, expected {len(exp)} (steps={steps})"))
            else:
                inc = all(tones[i] <= tones[i + 1] for i in range(len(tones) - 1))
                dec = all(tones[i] >= tones[i + 1] for i in range(len(tones) - 1))
                if not (inc or dec):
                    problems.append(("sweep-monotone", f"{label}: tones {tones} not monotone"))
                if tones and e > 0 and abs(tones[-1] - tone_of(e)) > 1:
                    problems.append(("sweep-end", f"{label}: last tone {tones[-1]}, expected {tone_of(e)}"))
                if tones and steps > 1 and s > 0 and abs(tones[0] - tone_of(s)) > 1:
                    problems.append(("sweep-start", f"{label}: first tone {tones[0]}, expected {tone_of(s)}"))
            if c["dur"] >= 0 and sum(delays) > float(c["dur"]) + 1e-9:
                problems.append(("sweep-duration", f"{label}: delays sum to {sum(delays)} > duration {c['dur']}"))
            expect_silent = True
        elif kind == "melody":
            default_tempo, seq = SCORES[c["melody"]]
            tempo = default_tempo if c["tempo"] is None or float(c["tempo"]) <= 0 else float(c["tempo"])
            beat_ms = f32(60000.0) / f32(tempo)
            want_tones = [tone_of(fq) for fq, _ in seq if fq > 0]
            want_delays = [int(f32(f32(b) * f32(beat_ms))) for _, b in seq]
            want_delays = [d for d in want_delays if d > 0]
            if tones != want_tones:
                problems.append(("melody-notes", f"{label}: tones {tones}, expected {want_tones}"))
            if any(abs(a - b) > 1 for a, b in zip(delays, want_delays)) or len(delays) != len(want_delays):
                problems.append(("melody-durations", f"{label}: delays {delays}, expected {want_delays} (+-1 ms float32)"))
            expect_silent = True
        # silence / getters
        g = getters.get(k, [])
        if expect_silent is True and st["sounding"]:
            problems.append(("not-silent", f"{label}: buzzer pin still sounding when the call returned"))
        if len(g) == 3:
            try:
                gs, gf, gl = float(g[0][1]), float(g[1][1]), float(g[2][1])
            except (ValueError, IndexError):
                gs = gf = gl = None
            if gs is not None:
                if expect_silent is not None and bool(gs) != (not expect_silent):
                    problems.append(("get_state", f"{label}: get_state() = {gs}, expected {not expect_silent}"))
                want_cur = 0.0 if expect_silent else float(c["freq"])
                if expect_silent is not None and abs(gf - want_cur) > 0.5 + 1e-3 * abs(want_cur):
                    problems.append(("get_frequency", f"{label}: get_frequency() = {gf}, expected {want_cur}"))
                if abs(gl - st["last"]) > 0.5 + 1e-3 * abs(st["last"]):
                    problems.append(("get_last_frequency", f"{label}: get_last_frequency() = {gl}, last tone sounded {st['last']}"))
        else:
            problems.append(("getters-missing", f"{label}: getter prints not found ({g})"))
        c["_done"] = True
        # remember the last frequency for a later default beep on the same buzzer
        for c2 in calls[k + 1:]:
            if c2["pin"] == pin:
                c2["_last"] = st["last"]
                c2["_last_exact"] = st["exact"]
                break
    return problems, seen


def run_case(case):
    idx, sd, positive = case
    rng = rng_for(PROP, sd, idx, positive)
    script, calls, buzzers, in_loop = gen(rng, positive)
    # the first call on each buzzer sees the default frequency as "last"
    first = {}
    for c in calls:
        if c["pin"] not in first:
            first[c["pin"]] = True
            c["_last"] = f32([b for b in buzzers.values() if b[1] == c["pin"]][0][2])
            c["_last_exact"] = True   # the declared default frequency itself (later values are read back from rounded tone events)
    t = engine.transpile(script)
    out = {"script": script, "transpile": t["status"], "exc": t.get("exc"), "calls": len(calls)}
    if t["status"] != "ok":
        return out
    with fw.Scratch() as wd:
        f = engine.firmware(t["cpp"], wd, passes=2)
    out["cpp"] = t["cpp"]
    out["fw_status"] = f["status"]
    out["diag"] = engine.first_diag_line(f.get("diag", ""))
    out["san"] = sorted({(a, b) for a, b, c in f.get("san_reports", [])})
    if f["status"] != "ok":
        return out
    problems, seen = monitor(f["events"], calls, buzzers, in_loop)
    out["problems"] = problems[:8]
    out["calls_judged"] = seen
    out["tone_events"] = sum(1 for e in f["events"] if e[1] in ("TONE", "NOTONE"))
    out["sample"] = [list(e) for e in f["events"] if e[1] in ("TONE", "NOTONE", "DELAY")][:10]
    return out


def loop_scenario(rng):
    """A buzzer call inside an ordinary loop whose arguments are variables that the loop body changes AFTER the call:
    every iteration must sound what the variable holds at that moment. -> (script, expected tones, expected delays)"""
    L = HDR.splitlines() + ["bz = Buzzer(8)"]
    kind = rng.choice(["freq-while", "freq-for", "dur-for", "beep-on", "tempo-for", "sweep-start"])
    n = rng.randint(2, 4)
    tones, delays = [], []
    if kind in ("freq-while", "freq-for"):
        # (float from the start: an int variable that later receives a float is the known re-typing finding)
        f0 = rng.choice([300.0, 262.0, 440.5, 1000.0])
        df = rng.choice([100.0, 55.0, 12.5])
        dur = rng.choice([20, 5, 50])
        L += [f"fq = {f0}", f"dur = {dur}"]
        if kind == "freq-while":
            L += [f"while fq < {f0 + n * df - 0.01}:", "    bz.play_tone(fq, dur)", f"    fq = fq + {df}"]
        else:
            L += [f"for k in range({n}):", "    bz.play_tone(fq, duration_ms=dur)", f"    fq += {df}"]
        for i in range(n):
            tones.append(tone_of(f32(f0 + i * df)))
            delays.append(dur)
    elif kind == "dur-for":
        d0, dd = rng.choice([(10, 15), (5, 5), (40, 1)])
        L += [f"d = {d0}", f"for k in range({n}):", "    bz.play_tone(440, d)", f"    d = d + {dd}"]
        for i in range(n):
            tones.append(440)
            delays.append(d0 + i * dd)
    elif kind == "beep-on":
        on0, don = rng.choice([(5, 10), (20, 1)])
        L += [f"on = {on0}", "fq = 500", f"for k in range({n}):", "    bz.beep(fq, on_ms=on, off_ms=3, times=2)", f"    on = on + {don}", "    fq = fq + 50"]
        for i in range(n):
            tones += [500 + 50 * i] * 2
            delays += [on0 + i * don, 3, on0 + i * don]
    elif kind == "tempo-for":
        tune = rng.choice(["success", "error", "notify"])
        tp0 = rng.choice([120, 90])
        L += [f"tp = {tp0}", f"for k in range({n}):", f'    bz.melody("{tune}", tempo=tp)', "    tp = tp * 2"]
        for i in range(n):
            beat_ms = f32(60000.0) / f32(tp0 * 2 ** i)
            tones += [tone_of(fq) for fq, _ in SCORES[tune][1] if fq > 0]
            delays += [d for d in (int(f32(f32(b) * f32(beat_ms))) for _, b in SCORES[tune][1]) if d > 0]
    else:
        s0, ds = rng.choice([(200, 100), (1000, -200)])
        L += [f"st = {s0}", f"for k in range({n}):", "    bz.sweep(st, st, duration_ms=0, steps=1)", f"    st = st + {ds}"]
        for i in range(n):
            tones.append(s0 + i * ds)
    L.append('mon.write("@end")')
    return "\n".join(L) + "\n", tones, delays, kind


def run_loop_case(case):
    idx, sd = case
    rng = rng_for(PROP, sd, "loop", idx)
    script, want_tones, want_delays, kind = loop_scenario(rng)
    t = engine.transpile(script)
    out = {"script": script, "transpile": t["status"], "exc": t.get("exc"), "kind": kind, "problems": []}
    if t["status"] != "ok":
        return out
    with fw.Scratch() as wd:
        f = engine.firmware(t["cpp"], wd, passes=1)
    out["cpp"] = t["cpp"]
    out["fw_status"] = f["status"]
    out["diag"] = engine.first_diag_line(f.get("diag", ""))
    if f["status"] != "ok":
        return out
    tones, delays = [], []
    for tt, k, fl in f["events"]:
        if k == "SER" and fl and fl[0] == "@end":
            break
        if k == "TONE" and int(fl[0]) == 8:
            tones.append(int(fl[1]))
        elif k == "DELAY":
            delays.append(int(fl[0]))
    out["tones"] = len(tones)
    if tones != want_tones:
        out["problems"].append(("loop-tones", f"{kind}: tones {tones}, the variables held {want_tones} when the calls ran"))
    if want_delays and (len(delays) != len(want_delays) or any(abs(a - b) > 1 for a, b in zip(delays, want_delays))):
        out["problems"].append(("loop-delays", f"{kind}: delays {delays}, expected {want_delays}"))
    return out


KNOWN_KEYS = {
    "unbounded-delay:runtime": "KF-buzzer-negative-duration",
    "unbounded-delay:literal": "KF-buzzer-negative-duration",
}


def main() -> int:
    rep = Report(PROP)
    t = tier()
    sd = seed()
    n = 360 if t == "quick" else 2500
    cases = [(i, sd, i % 3 == 0) for i in range(n)]
    for case, st, res in run_cases(run_case, cases):
        if st != "ok":
            rep.inconclusive_because(f"case {case} failed: {res[-300:]}")
            continue
        w = {"script.py": res["script"], "sketch.cpp": res.get("cpp") or "", "detail.json": json.dumps({k: res.get(k) for k in ("problems", "fw_status", "diag", "san", "exc")}, indent=1, default=str)}
        if res["transpile"] != "ok":
            rep.count("transpile:" + res["transpile"])
            rep.case(None, False)
            if res["transpile"] == "internal":
                rep.violation(f"buzzer script crashed the transpiler: {res['exc']}", w, key="internal")
            continue
        if res["fw_status"] != "ok":
            rep.case(None, False)
            rep.count("fw:" + res["fw_status"])
            rep.violation(f"buzzer firmware: {res['fw_status']} {res.get('diag')}", w, key="fw:" + res["fw_status"])
            continue
        rep.case(str(hash(res["script"])), res["calls_judged"] > 0)
        rep.count("buzzer_calls_judged", res["calls_judged"])
        rep.count("tone_events_observed", res["tone_events"])
        for a, b in res["san"]:
            rep.count(f"sanitizer:{a}:{b}")
        for key, msg in res["problems"]:
            fid = KNOWN_KEYS.get(key)
            if key in ("not-silent", "get_state", "get_frequency") and " beep" in msg and '"times": 0' in msg or (key in ("not-silent", "get_state", "get_frequency") and " beep" in msg and '"times": -1' in msg):
                fid = "KF-buzzer-beep-zero-times-not-silent"
            if fid and fid in rep.open_findings:
                rep.known(fid, msg, w)
            else:
                rep.violation(msg, w, key=key)
        if len(rep.samples) < 3 and res["tone_events"] > 4:
            rep.sample({"script": res["script"][-700:], "events": res["sample"]})
    for case, st, res in run_cases(run_loop_case, [(i, sd) for i in range(48 if t == "quick" else 400)]):
        if st != "ok":
            rep.inconclusive_because(f"loop case {case} failed: {res[-300:]}")
            continue
        w = {"script.py": res["script"], "sketch.cpp": res.get("cpp") or ""}
        if res["transpile"] != "ok":
            rep.count("loop-scenario:" + res["transpile"])
            continue
        if res["fw_status"] != "ok":
            rep.violation(f"buzzer firmware (loop scenario): {res['fw_status']} {res.get('diag')}", w, key="fw-loop:" + res["fw_status"])
            continue
        rep.case("loop:" + str(hash(res["script"])), res["tones"] > 0)
        rep.count("loop_scenarios_judged")
        rep.count("loop_scenario:" + res["kind"])
        for key, msg in res["problems"]:
            rep.violation(msg, w, key=key)
    if rep.counters.get("buzzer_calls_judged", 0) == 0:
        rep.inconclusive_because("no buzzer call was judged")
    rep.rule = ("random histories of 3-10 buzzer calls over 1-2 buzzers (play_tone with/without duration, stop, beep with explicit/default "
                "frequency, sweep, all seven melodies with/without tempo), arguments from {negative, zero, fractional, typical} classes as literals "
                "or run-time values, in setup() or the main loop; the firmware's tone/noTone/delay events between per-call markers are replayed "
                "against the protocol state machine and the pinned score table, getter prints against the machine's state. "
                "non-trivial = at least one call judged")
    rep.assumptions = ["score table pinned in vlib/checks/C16.py", "durations are compared after truncation to whole ms; melody note lengths +-1 ms (float32)"]
    return rep.finish(min_distinct=40)


if __name__ == "__main__":
    raise SystemExit(main())
