"""C13 - board registry validation is exact; project files round-trip; nothing outside the project dir."""
from __future__ import annotations

import configparser
import json
import os
import shutil
import sys
import tempfile
from pathlib import Path

from ..common import Report, rng_for, seed, tier, use_repo

PROP = "C13"


def near_misses(names, rng, limit):
    out = set()
    names = sorted(names)
    for n in names:
        out.update({n.upper(), n.lower(), n.capitalize(), n + " ", " " + n, n[:-1], n + "x", n + "\n", "\t" + n,
                    n.replace("_", "-"), n.replace("-", "_"), n + "_", n[1:], n + "@", n + "@1.2.3", n + "@^4", "@" + n, n + "@" + names[0], n + "/", n + ".json",
                    n + "@ 1", n + ";", n + "#x", n + ","})
    out.update({"", " ", "uno ", "UNO", "Uno", "un\u043e", "ｕｎｏ", "uno\x00", "None", "*", "atmelavr", "atmelmegaavr", "esp32dev"})
    out = sorted(out)
    rng.shuffle(out)
    return out[:limit]


def dir_snapshot(root: Path):
    snap = {}
    for p in sorted(root.rglob("*")):
        try:
            snap[str(p.relative_to(root))] = (p.is_dir(), p.stat().st_size if p.is_file() else 0,
                                               p.stat().st_mtime_ns if p.is_file() else 0)
        except OSError:
            pass
    return snap


def main() -> int:
    rep = Report(PROP)
    use_repo()
    import Reduino.toolchain.pio as pio

    t = tier()
    sd = seed()
    rng = rng_for(PROP, sd)
    reg = pio.SUPPORTED_PLATFORMS
    platforms = sorted(reg)
    all_boards = sorted(set().union(*reg.values()))
    # ---- partition monitor
    seen = {}
    for p in platforms:
        for b in reg[p]:
            seen.setdefault(b, []).append(p)
    for b, ps in seen.items():
        if len(ps) != 1:
            rep.violation(f"board {b!r} is registered for {len(ps)} platforms {ps}", key="partition")
    rep.count("registered_boards", len(all_boards))
    rep.count("platforms", len(platforms))
    # ---- exhaustive validation matrix
    plat_set = list(dict.fromkeys(platforms + near_misses(platforms, rng, 40)))
    board_set = list(dict.fromkeys(all_boards + near_misses(all_boards, rng, 400 if t == "quick" else 5000)))
    accepted = 0
    for p in plat_set:
        for b in board_set:
            rep.evaluations += 1
            should = p in reg and b in reg[p]
            # fresh string objects (as read from a file or the command line), never the registry's own interned keys
            p, b = "".join(list(p)), "".join(list(b))
            try:
                pio.validate_platform_board(p, b)
                ok = True
                err = None
            except ValueError:
                ok = False
            except Exception as exc:  # noqa: BLE001
                ok = None
                err = exc
            if ok is None:
                rep.violation(f"validate_platform_board({p!r}, {b!r}) raised {type(err).__name__}", key="val-exc")
            elif ok != should:
                rep.violation(f"validate_platform_board({p!r}, {b!r}) {'accepted' if ok else 'rejected'} but the registry "
                              f"says {'registered' if should else 'not registered for that platform'}", key="val-mismatch")
            if ok:
                accepted += 1
                rep.distinct.add(f"ok:{p}:{b}")
    rep.count("validation_calls", len(plat_set) * len(board_set))
    rep.count("pairs_accepted", accepted)
    if accepted != len(all_boards):
        rep.violation(f"{accepted} pairs accepted but {len(all_boards)} boards registered", key="accept-count")
    # ---- project round trip
    n_proj = 1200 if t == "quick" else 6000
    ports = ["COM3", "COM10", "COM27", "COM100", "com12", "~/dev/tty", "/dev/ttyACM0", "/dev/tty.usbmodem-14101", "COM=7", "a:b", "x;y", "p#q", "100%", "%(board)s", "${env.port}",
             "[env]", "back\\slash", "sp ace", "COM{3}", "/dev/tty{{0}}", "}{", "{port}", "{lib_section}", "rfc2217://10.0.0.2:4000", "/dev//ttyUSB0", "/dev/ttyUSB0/", "ünï", "端口", "a=b=c", "--flag", "C:\\dev\\com1", "'q'", '"dq"']
    # (distinct specs that share a library name - a pinned and an unpinned Servo, two git@ URLs - are distinct entries)
    libs_pool = ["Servo", "LiquidCrystal", "LiquidCrystal_I2C", "", None, "Adafruit NeoPixel@^1.0", "owner/Lib", "Servo", "Servo@^1.2.1", "Servo@1.1.8",
                 "git@github.com:a/b.git", "git@github.com:c/d.git", "https://example.org/lib.zip", "owner/Lib@2.0",
                 "bblanchon/ArduinoJson@>=6.0,<7.0", "Servo,Wire", "name, with comma", "LiquidCrystal_I2C", "LiquidCrystal", "owner/Lib@>1,<3"]
    sources = ["void setup(){}\nvoid loop(){}\n", "", "// ünïcode 端口 \U0001F600\n", "line1\r\nline2\r\n", "no newline at end",
               "\ttabs\t\n\n\n", "#include <Arduino.h>\n" * 50]
    base = Path(tempfile.mkdtemp(prefix="reduverif-c13-"))
    audit_writes = []
    watching = {"on": False}

    def hook(event, args):
        if not watching["on"]:
            return
        if event == "open":
            path, mode = args[0], args[1]
            if isinstance(mode, str) and any(c in mode for c in "wax+"):
                audit_writes.append(("open", str(path)))
        elif event in ("os.mkdir", "os.rename", "os.remove", "os.rmdir", "os.symlink", "os.link", "os.chmod", "shutil.rmtree"):
            audit_writes.append((event, str(args[0])))

    sys.addaudithook(hook)
    try:
        sibling = base / "sibling"
        sibling.mkdir()
        (sibling / "keep.txt").write_text("keep")
        # neighbours named like the temporary projects target() creates: generating one project never cleans up others
        for nm in ("reduino-pio-keep", "reduino-pio-", "reduino-pio-0ld1"):
            (base / nm).mkdir()
            (base / nm / "platformio.ini").write_text("; someone else's project\n")
        for k in range(n_proj):
            r = rng_for(PROP, sd, "proj", k)
            port = r.choice(ports) if r.random() < 0.6 else "".join(r.choice("abcXYZ0189/:._-=;#%[]$() ü端") for _ in range(r.randint(1, 12))).strip() or "p"
            plat = r.choice(platforms)
            board = r.choice(sorted(reg[plat]))
            if r.random() < 0.5:
                plat, board = "".join(list(plat)), "".join(list(board))   # equal but distinct string objects
            libs = [r.choice(libs_pool) for _ in range(r.randint(0, 5))]
            libs_arg = None if r.random() < 0.1 else (iter(libs) if r.random() < 0.2 else libs)
            src = r.choice(sources) if r.random() < 0.7 else "".join(chr(r.choice([r.randint(32, 126), r.randint(160, 1000), 10])) for _ in range(r.randint(0, 200)))
            proj = base / (f"proj{k % 7}" if k % 3 else f"reduino-pio-{k % 7}x")
            if proj.exists():
                shutil.rmtree(proj)
            before = dir_snapshot(sibling)
            listing_before = sorted(p.name for p in base.iterdir())
            audit_writes.clear()
            watching["on"] = True
            try:
                pio.write_project(proj, src, port, platform=plat, board=board, lib_deps=libs_arg)
                exc = None
            except Exception as e:  # noqa: BLE001
                exc = e
            finally:
                watching["on"] = False
            rep.evaluations += 1
            case = {"port": port, "platform": plat, "board": board, "libs": libs, "src_len": len(src)}
            if exc is not None:
                rep.violation(f"write_project raised {type(exc).__name__}: {exc}", {"detail.json": json.dumps(case, default=str)}, key="wp-exc")
                continue
            rep.distinct.add(f"proj:{port}:{board}:{libs}:{hash(src)}")
            # touched only the project dir
            outside = [w for w in audit_writes if not os.path.abspath(w[1]).startswith(str(proj))]
            if outside or dir_snapshot(sibling) != before or sorted(p.name for p in base.iterdir()) != sorted(set(listing_before) | {proj.name}):
                rep.violation(f"write_project touched paths outside the project directory: {outside[:3]}",
                              {"detail.json": json.dumps(case, default=str)}, key="outside")
            rep.count("audit_write_events", len(audit_writes))
            files = sorted(str(p.relative_to(proj)) for p in proj.rglob("*") if p.is_file())
            if files != ["platformio.ini", "src/main.cpp"]:
                rep.violation(f"project contains unexpected files {files}", {"detail.json": json.dumps(case, default=str)}, key="files")
            got_bytes = (proj / "src" / "main.cpp").read_bytes()
            if got_bytes != src.encode("utf-8"):
                rep.violation("src/main.cpp is not the given source verbatim (utf-8)",
                              {"detail.json": json.dumps(dict(case, got=got_bytes[:80].hex(), want=src.encode()[:80].hex()))}, key="main-bytes")
            cp = configparser.ConfigParser(interpolation=None, delimiters=("=",), comment_prefixes=("#", ";"), inline_comment_prefixes=None)
            try:
                cp.read_string((proj / "platformio.ini").read_text(encoding="utf-8"))
            except configparser.Error as e:
                rep.violation(f"platformio.ini is not parseable: {type(e).__name__}", {"platformio.ini.txt": (proj / 'platformio.ini').read_text(), "detail.json": json.dumps(case, default=str)}, key="ini-parse")
                continue
            expected_libs = []
            for x in libs:
                if x and x not in expected_libs:
                    expected_libs.append(x)
            if libs_arg is None:
                expected_libs = []
            env_name = "env:" + "".join(c if (c.isascii() and (c.isalnum() or c == "_")) else "\0" for c in board)
            import re as _re
            env_name = "env:" + _re.sub(r"[^A-Za-z0-9_]+", "_", board)
            problems = []
            if cp.sections() != [env_name]:
                problems.append(f"sections {cp.sections()} != [{env_name}]")
            else:
                sec = cp[env_name]
                want = {"platform": plat, "board": board, "framework": "arduino", "upload_port": port}
                for k2, v2 in want.items():
                    if sec.get(k2) != v2:
                        problems.append(f"{k2}={sec.get(k2)!r} (want {v2!r})")
                got_libs = [x.strip() for x in sec.get("lib_deps", "").splitlines() if x.strip()]
                if got_libs != expected_libs:
                    problems.append(f"lib_deps={got_libs} (want {expected_libs})")
                extra = set(sec.keys()) - set(want) - {"lib_deps"}
                if extra:
                    # further settings in the environment are not excluded by the statement: counted, not judged
                    rep.count("ini_extra_keys_seen")
            if problems:
                rep.violation("platformio.ini does not read back as given: " + "; ".join(problems),
                              {"platformio.ini.txt": (proj / "platformio.ini").read_text(), "detail.json": json.dumps(case, default=str)},
                              key="ini:" + problems[0].split("=")[0])
            if k < 3:
                rep.sample({"case": case, "ini": (proj / "platformio.ini").read_text()})
        # same project directory written twice: the second source must replace the first even when the ini is identical
        twice = base / "twice"
        pio.write_project(twice, "// first\n", "COM3", platform="atmelavr", board="uno", lib_deps=["Servo"])
        pio.write_project(twice, "// second\n", "COM3", platform="atmelavr", board="uno", lib_deps=["Servo"])
        rep.evaluations += 1
        if (twice / "src" / "main.cpp").read_text() != "// second\n":
            rep.violation("second write_project into the same directory left the previous src/main.cpp in place", key="stale-main")
        # ... also when the new source happens to have exactly the size of the old one
        for txt in ("// secanD\n", "// s\u00e9cnD\n", "// s\u00e8cnD\n", "// other\n"):   # 10, 10 (2-byte char), 10, 9 bytes after "// second\n" (10)
            pio.write_project(twice, txt, "COM3", platform="atmelavr", board="uno", lib_deps=["Servo"])
            rep.count("same_dir_rewrites")
            if (twice / "src" / "main.cpp").read_text(encoding="utf-8") != txt:
                rep.violation(f"write_project into an existing project directory did not replace src/main.cpp by the new source {txt!r}", key="stale-main")
        # ... or differs from it only in its line terminators / trailing blanks / case (compared byte for byte, as written)
        for txt in ("a\r\nb\r\n", "a\nb\n", "a\rb\r", "a\nb\n", "a\nb", "a\nb \n", "A\nb \n", "a\nb\n\n", "\ufeffa\nb\n\n", "a\nb\n\n"):
            pio.write_project(twice, txt, "COM3", platform="atmelavr", board="uno", lib_deps=["Servo"])
            rep.count("same_dir_rewrites")
            if (twice / "src" / "main.cpp").read_bytes() != txt.encode("utf-8"):
                rep.violation(f"write_project into an existing project directory did not replace src/main.cpp by the new source {txt!r} "
                              f"(file holds {(twice / 'src' / 'main.cpp').read_bytes()[:40]!r})", key="stale-main")
        import configparser as _cp
        for libs2 in (["LiquidCrystal", "Servo"], [], ["LiquidCrystal_I2C"]):
            pio.write_project(twice, "// third\n", "COM3", platform="atmelavr", board="uno", lib_deps=libs2)
            c2 = _cp.ConfigParser(interpolation=None)
            c2.read(twice / "platformio.ini", encoding="utf-8")
            got2 = [x.strip() for x in c2[c2.sections()[0]].get("lib_deps", "").splitlines() if x.strip()]
            rep.count("same_dir_rewrites")
            if got2 != libs2:
                rep.violation(f"write_project into an existing project directory kept a stale platformio.ini: lib_deps {got2}, given {libs2}", key="stale-ini")
        # validation is a function of the pair only: a valid use of a board must not make later invalid pairs pass
        for plat_ok, board_ok, plat_bad in (("atmelmegaavr", "nano_every", "atmelavr"), ("atmelavr", "uno", "mystery"), ("atmelavr", "uno", "atmelmegaavr")):
            pio.validate_platform_board(plat_ok, board_ok)
            pio.write_project(base / "hist_ok", "x", "COM3", platform=plat_ok, board=board_ok)
            rep.evaluations += 1
            try:
                pio.write_project(base / "hist_bad", "x", "COM3", platform=plat_bad, board=board_ok)
                rep.violation(f"write_project accepted {plat_bad}/{board_ok} after a valid use of {plat_ok}/{board_ok} in the same process", key="validation-history")
            except ValueError:
                pass
            try:
                pio.validate_platform_board(plat_bad, board_ok)
                rep.violation(f"validate_platform_board accepted {plat_bad}/{board_ok} after a valid use of the board", key="validation-history")
            except ValueError:
                pass
        # every registered board through the env-name sanitiser
        for b in all_boards:
            name = pio._sanitize_env_name(b)
            rep.count("env_names_checked")
            if not name or any(not (c.isascii() and (c.isalnum() or c == "_")) for c in name):
                rep.violation(f"env name {name!r} for board {b!r} is not INI-safe", key="envname")
    finally:
        watching["on"] = False
        shutil.rmtree(base, ignore_errors=True)
    rep.rule = ("(all platforms + near-miss names) x (all registered boards + near-miss names) validated against set "
                "membership (exhaustive over the registry); random projects (ports with INI metacharacters and "
                "unicode but no edge whitespace, library lists with duplicates/empties/None, non-ASCII/CRLF/empty "
                "sources) written, read back with configparser(interpolation=None) and byte-compared; audit hook + "
                "sibling directory snapshot for writes outside the project. distinct = distinct accepted pairs + "
                "distinct project inputs")
    rep.assumptions = ["ports have no leading/trailing whitespace and no newline (an INI value cannot carry them)"]
    return rep.finish(min_distinct=100, exhaustive=False)


if __name__ == "__main__":
    raise SystemExit(main())
