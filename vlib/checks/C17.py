"""C17 - LCD text: same characters in the same cells on device and host, never off-row.
Simulated HD44780 cell matrix (mock LiquidCrystal*) vs host LCD.buffer after every call."""
from __future__ import annotations

import json
import re

from .. import engine, fw, trace, witness
from ..common import Report, rng_for, run_cases, seed, tier

PROP = "C17"

HDR = """from Reduino import target
target("COM3")
from Reduino.Communication import SerialMonitor
from Reduino.Displays import LCD
from Reduino.Core import analog_read

mon = SerialMonitor(9600)
sel = analog_read(0)
"""

WORDS = ["", "A", "Hi", "Temp:", "hello world", "0123456789", "Setup complete", "x", "  pad  ", "#hash #", "a,b;c", "UPPER lower 123", "!?*+-/=<>()[]"]


def text_of_len(rng, n):
    if n <= 0:
        return ""
    base = rng.choice(["abcdefghijklmnopqrstuvwxyz", "The quick brown fox jumps over the lazy dog", "0123456789" * 5, "Lorem ipsum dolor sit amet consectetur",
                       # characters that are written with an escape in the C++ literal are still ONE cell each
                       'say "hi" to "everyone" here and "now" again', "C:\\dir\\sub\\file.txt and D:\\x\\y", "it's 5 o'clock: \"ok\" \\ done %d {x}"])
    s = (base * (n // len(base) + 1))[:n]
    if s.startswith(" "):
        s = "_" + s[1:]
    return s


def gen(rng, hazards=()):
    hz = set(hazards)
    L = HDR.splitlines()
    lcds = []
    n_lcd = rng.choice([1, 1, 1, 2])
    pin = [2]

    def nxt():
        pin[0] += 1
        return pin[0]

    for i in range(n_lcd):
        cols = rng.choice([16, 16, 20, 8, 40, 1, 2, rng.randint(1, 40), 3, 5, 7, 15, 19, 9, 22, 23, 26, 39, 24])   # (odd widths: centring splits an odd number of blanks)
        rows = rng.choice([2, 2, 4, 1, rng.randint(1, 4)])
        i2c = rng.random() < 0.4
        bl = None
        wiring = None
        if i2c:
            wiring = ("i2c", 0x27 - i, cols, rows)
            if rng.random() < 0.3:
                L += [f"ncols{i} = {cols}", f"nrows{i} = {rows}"]  # geometry named by user variables
                L.append(f"lcd{i} = LCD(i2c_addr={0x27 - i}, cols=ncols{i}, rows=nrows{i})")
            else:
                L.append(f"lcd{i} = LCD(i2c_addr={0x27 - i}, cols={cols}, rows={rows})")
        else:
            pins = [nxt() for _ in range(6)]
            extra = ""
            if rng.random() < 0.5:
                bl = nxt()
                extra += f", backlight_pin={bl}"
            rw = -1
            if rng.random() < 0.3:
                rw = nxt()
                extra += f", rw={rw}"
            kws = [f"rs={pins[0]}", f"en={pins[1]}", f"d4={pins[2]}", f"d5={pins[3]}", f"d6={pins[4]}", f"d7={pins[5]}", f"cols={cols}", f"rows={rows}"] + \
                  [x.strip() for x in extra.split(",") if x.strip()]
            if rng.random() < 0.4:
                rng.shuffle(kws)   # every parameter is keyword-only: any order is the same call
            L.append(f"lcd{i} = LCD({', '.join(kws)})")
            wiring = ("parallel", pins[0], rw, pins[1], pins[2], pins[3], pins[4], pins[5])
        lcds.append({"name": f"lcd{i}", "cols": cols, "rows": rows, "i2c": i2c, "bl": bl, "idx": i, "wiring": wiring})
    ops = []
    nvar = [0]
    body = []
    wrap_from = None

    def arg(v):
        if rng.random() < 0.3:
            nvar[0] += 1
            body.append(f"t{nvar[0]} = {v!r}")
            return f"t{nvar[0]}"
        return repr(v)

    def text_for(space):
        n = rng.choice([0, 1, max(0, space - 1), space, space + 1, 2 * space, rng.randint(0, space + 3)])
        return rng.choice(WORDS) if rng.random() < 0.3 else text_of_len(rng, n)

    k = 0
    for _ in range(rng.randint(4, 16)):
        mark = len(body)
        if mark and wrap_from is not None and wrap_from < len(body):
            # the previous call (and its marker) go inside a block whose condition is only known at run time
            # (`sel` is an ADC reading: 0 here) - taken, not taken, or a one-iteration loop
            head = rng.choice(["if sel > 5:", "if sel == 0:", "if sel == 0:", "for rep in range(1):", "if sel > 5:\n    pass\nelse:"])
            inner = body[wrap_from:]
            del body[wrap_from:]
            body += head.split("\n") + ["    " + x for x in inner]
            if head == "if sel > 5:":
                # never executed: neither the call nor its markers happen
                dropped = len([x for x in inner if x.startswith("mon.write(\"@")])
                del ops[len(ops) - dropped:]
        wrap_from = len(body) if rng.random() < 0.2 else None
        lcd = rng.choice(lcds)
        nm, cols, rows = lcd["name"], lcd["cols"], lcd["rows"]
        kind = rng.choice(["write", "write", "line", "line", "message", "clear", "progress", "progress", "display", "backlight", "brightness", "glyph"])
        op = {"k": k, "lcd": lcd["idx"], "kind": kind, "tol_row": None}
        if kind == "write":
            col = rng.randint(0, cols - 1)
            row = rng.randint(0, rows - 1)
            txt = text_for(cols - col)
            kw = []
            if rng.random() < 0.5:
                kw.append(f"clear_row={rng.choice(['True', 'False'])}")
            if rng.random() < 0.6:
                kw.append(f"align=\"{rng.choice(['left', 'center', 'right', 'LEFT', 'Center'])}\"")
            rng.shuffle(kw)
            body.append(f"{nm}.write({arg(col)}, {arg(row)}, {arg(txt)}" + "".join(", " + x for x in kw) + ")")
        elif kind == "line":
            row = rng.randint(0, rows - 1)
            txt = text_for(cols)
            kw = []
            align_var = None
            if rng.random() < 0.08:
                # the alignment named by a variable that is changed after the call (rejected today; if it is ever accepted, the
                # call must use the value the variable has when it runs - also on the second loop() pass)
                align_var = f"al{k}"
                L.append(f"{align_var} = \"{rng.choice(['center', 'right'])}\"")
                body.append("if sel == 0:")
                body.append(f"    {align_var} = \"left\"")
                kw.append(f"align={align_var}")
            elif rng.random() < 0.6:
                kw.append(f"align=\"{rng.choice(['left', 'center', 'right', 'Right', 'CENTER'])}\"")
            if rng.random() < 0.4:
                kw.append(f"clear_row={rng.choice(['True', 'False'])}")
            body.append(f"{nm}.line({arg(row)}, {arg(txt)}" + "".join(", " + x for x in kw) + ")")
            if align_var:
                body.append(f"{align_var} = \"right\"")
        elif kind == "message":
            top = text_for(cols)
            bottom = text_for(cols)
            parts = []
            form = rng.choice(["both", "top", "bottom-kw", "both-kw"])
            if form == "both":
                parts = [arg(top), arg(bottom)]
            elif form == "top":
                parts = [arg(top)]
            elif form == "bottom-kw":
                parts = [f"bottom={arg(bottom)}"]
            else:
                parts = [f"top={arg(top)}", f"bottom={arg(bottom)}"]
            if rng.random() < 0.5:
                parts.append(f"top_align=\"{rng.choice(['left', 'center', 'right'])}\"")
            if rng.random() < 0.4:
                parts.append(f"bottom_align=\"{rng.choice(['left', 'center', 'right'])}\"")
            if rng.random() < 0.3:
                parts.append(f"clear_rows={rng.choice(['True', 'False'])}")
            body.append(f"{nm}.message({', '.join(parts)})")
        elif kind == "clear":
            body.append(f"{nm}.clear()")
        elif kind == "progress":
            row = rng.randint(0, rows - 1)
            mx = rng.choice([100, 100, 10, 7, 255, 1])
            width = rng.choice([None, None, 1, cols, max(1, cols // 2), rng.randint(1, cols)])
            if rng.random() < 0.12:
                width = rng.choice([0, -3, cols + 5])   # the host clamps the width into 1..cols
            if rng.random() < 0.08:
                mx = rng.choice([0, -5])                # the host draws an empty bar
            w_eff = cols if width is None else max(1, min(cols, width))
            if mx > 0 and rng.random() < 0.3:
                # max_value a multiple of the bar width: EVERY value is an exact number of cells (also where value/max*width
                # is not exactly representable, e.g. 15/22*22)
                mx = w_eff * rng.choice([1, 1, 2, 3, 7, 1000])
            if rng.random() < 0.6:
                # exact fraction: value*width % max == 0
                cands = [v for v in range(0, mx + 1) if (v * w_eff) % mx == 0] if mx > 0 else [0, 3]
                # exact points whose floating-point quotient is NOT exact (v / max * width lands a hair beside the integer)
                fragile = [v for v in cands if mx > 0 and (v / mx) * w_eff != (v * w_eff) // mx]
                val = rng.choice(fragile) if fragile and rng.random() < 0.6 else rng.choice(cands)
            else:
                val = rng.choice([-5, 0, mx, mx + 10, rng.randint(0, max(1, mx))])
            exact = mx <= 0 or ((max(0, min(val, mx)) * w_eff) % mx == 0)
            label = rng.choice([None, None, "Load", "L", "progress label", "Load ", " ", "CPU: ", " x"])
            style = rng.choice([None, "block", "hash", "pipe", "dot"])
            parts = [arg(row), arg(val)]
            if mx != 100 or rng.random() < 0.3:
                parts.append(f"max_value={mx}" if rng.random() < 0.6 else str(mx))
            if width is not None:
                parts.append(f"width={width}")
            if style:
                parts.append(f"style=\"{style}\"")
            if label is not None:
                parts.append(f"label={label!r}")
            body.append(f"{nm}.progress({', '.join(parts)})")
            op.update(exact=exact, row=row, w_eff=w_eff, val=val, mx=mx, label=label)
            if not exact:
                op["tol_row"] = row
        elif kind == "display":
            body.append(f"{nm}.display({rng.choice(['True', 'False'])})")
        elif kind == "backlight":
            body.append(f"{nm}.backlight({rng.choice(['True', 'False'])})")
        elif kind == "brightness":
            if lcd["bl"] is None:
                continue
            if rng.random() < 0.4:
                # the backlight / display state is changed by a LITERAL call inside a block whose condition is only known at run
                # time (taken or not), and the brightness is set afterwards: the pin follows the state the display really has
                body.append(f"{nm}.brightness({rng.choice([50, 128, 255])})")
                body.append(rng.choice([f"{nm}.backlight(True)", f"{nm}.display(True)", f"{nm}.backlight(True)"]))
                cond = rng.choice(["if sel > 5:", "if sel == 0:", "for rep in range(sel):", "for rep in range(1):"])
                body.append(cond)
                body.append("    " + rng.choice([f"{nm}.backlight(False)", f"{nm}.display(False)"]))
            body.append(f"{nm}.brightness({arg(rng.choice([0, 1, 128, 200, 255]))})")
        else:
            slot = rng.randint(0, 7)
            bm = [rng.choice([0, 31, 17, 4, 21, 10, 63, 255, 14]) for _ in range(8)]
            body.append(f"{nm}.glyph({slot}, {bm})")
        body.append(f"mon.write(\"@{k}\")")
        ops.append(op)
        k += 1
        if op["tol_row"] is not None:
            # an inexact progress bar may differ by one cell between device and host: wipe it before going on
            body.append(f"{nm}.clear()")
            body.append(f"mon.write(\"@{k}\")")
            ops.append({"k": k, "lcd": lcd["idx"], "kind": "clear", "tol_row": None})
            k += 1
    in_loop = rng.random() < 0.3
    if in_loop:
        # glyph re-uploads of one slot with alternating bitmaps across passes
        if lcds and rng.random() < 0.7:
            nm = lcds[0]["name"]
            bm_a = [rng.choice([0, 31, 17, 4]) for _ in range(8)]
            bm_b = [31 - x for x in bm_a]
            body = [f"{nm}.glyph(2, {bm_a})", f"mon.write(\"@{k}\")"] + body + [f"{nm}.glyph(2, {bm_b})", f"mon.write(\"@{k + 1}\")"]
            ops = [{"k": k, "lcd": lcds[0]["idx"], "kind": "glyph", "tol_row": None}] + ops + [{"k": k + 1, "lcd": lcds[0]["idx"], "kind": "glyph", "tol_row": None}]
            if rng.random() < 0.6:
                # the same upload also happens once before the loop
                L.append(f"{nm}.glyph(2, {bm_a})")
                L.append(f"mon.write(\"@{k + 2}\")")
                ops.append({"k": k + 2, "lcd": lcds[0]["idx"], "kind": "glyph", "tol_row": None})
        L.append("while True:")
        L += ["    " + b for b in body]
    else:
        L += body
    return "\n".join(L) + "\n", lcds, ops, in_loop


def to_host_chars(s: str) -> str:
    return s.replace("\xff", "█")


def compare(fw_events, py_events, lcds, ops):
    problems = []
    # the library object is constructed with exactly the declared wiring (pins / bus address) and begun with the declared size
    ctor = {int(f[0]): f[2:] for t, kind, f in fw_events if kind == "LCD" and f[1] == "CTOR"}
    begun = {int(f[0]): f for t, kind, f in fw_events if kind == "LCD" and f[1] == "BEGIN"}
    for lcd in lcds:
        w = lcd.get("wiring")
        if not w:
            continue
        got = ctor.get(lcd["idx"])
        if got is None:
            problems.append(("lcd-ctor-missing", f"LCD {lcd['idx']} was never constructed on the device"))
            continue
        want = [w[0]] + [str(x) for x in (w[1:2] if w[0] == "i2c" else w[1:])]
        have = list(got[:2]) if w[0] == "i2c" else list(got)
        if have != want:
            problems.append(("lcd-wiring", f"LCD {lcd['idx']} constructed as {have}, declared {want} (kind, rs, rw, en, d4..d7 / bus address)"))
        b = begun.get(lcd["idx"])
        if b is not None and (int(b[-2]), int(b[-1])) != (lcd["cols"], lcd["rows"]):
            problems.append(("lcd-geometry", f"LCD {lcd['idx']} begun as {b[-2]}x{b[-1]}, declared {lcd['cols']}x{lcd['rows']}"))
    # device snapshots per marker occurrence (a marker inside the main loop occurs once per pass)
    fw_seq = []
    cur = None
    aw = {}
    glyph_dev = {}
    oob = []
    for t, kind, f in fw_events:
        if kind == "SER" and f and f[0].startswith("@"):
            cur = {"k": int(f[0][1:]), "aw": dict(aw), "lcds": {}, "glyphs": {i: dict(g) for i, g in glyph_dev.items()}}
            fw_seq.append(cur)
        elif kind == "LCDSNAP" and cur is not None:
            rows = [trace.unesc(x) for x in f[5:]]
            cur["lcds"][int(f[0])] = {"rows": rows, "display": f[3] == "1", "backlight": f[4] == "1"}
        elif kind in ("PASS", "PASS_END"):
            cur = None
        elif kind == "AW":
            aw[int(f[0])] = int(f[1])
        elif kind == "LCD":
            if f[1] in ("OOB", "ROWCLAMP"):
                oob.append((f[0], f[1], f[2:]))
            elif f[1] == "GLYPH":
                glyph_dev.setdefault(int(f[0]), {})[int(f[2])] = [int(x) for x in f[3].split(",")]
    py_seq = []
    curp = None
    for e in py_events:
        if e[0] == "SER" and e[1].startswith("@"):
            curp = {"k": int(e[1][1:]), "lcds": {}}
            py_seq.append(curp)
        elif e[0] == "LCDSNAP" and curp is not None:
            curp["lcds"][e[1]] = {"rows": e[2], "display": e[3], "backlight": e[4], "brightness": e[5], "glyphs": e[6]}
        elif e[0] == "PASS":
            curp = None
    if [x["k"] for x in fw_seq] != [x["k"] for x in py_seq]:
        problems.append(("marker-sequence", f"marker sequence differs: device {[x['k'] for x in fw_seq][:12]} host {[x['k'] for x in py_seq][:12]}"))
    opmap = {op["k"]: op for op in ops}
    fw_snaps = {n: x["lcds"] for n, x in enumerate(fw_seq)}
    py_snaps = {n: x["lcds"] for n, x in enumerate(py_seq)}
    aw_at = {n: x["aw"] for n, x in enumerate(fw_seq)}
    seq_ops = [dict(opmap.get(x["k"], {"k": x["k"], "lcd": -1, "kind": "?", "tol_row": None}), k=n, marker=x["k"]) for n, x in enumerate(fw_seq[: len(py_seq)])]
    ops = seq_ops
    for n, (fx, px) in enumerate(zip(fw_seq, py_seq)):
        for lcd in lcds:
            hg = {int(sl): v for sl, v in ((px["lcds"].get(lcd["idx"]) or {}).get("glyphs") or {}).items()}
            dg = fx["glyphs"].get(lcd["idx"], {})
            if hg != dg:
                problems.append(("glyph", f"occurrence {n} (marker {fx['k']}): LCD {lcd['idx']} device CGRAM {dg} vs host glyphs {hg}"))
                break
    for o in oob[:3]:
        problems.append(("device-off-row", f"device wrote outside the display (LCD {o[0]} {o[1]} {o[2]})"))
    compared = 0
    for op in ops:
        k = op["k"]
        if k not in fw_snaps or k not in py_snaps:
            problems.append(("snapshot-missing", f"no snapshot for marker {k} (fw {k in fw_snaps}, host {k in py_snaps})"))
            continue
        for lcd in lcds:
            i = lcd["idx"]
            d = fw_snaps[k].get(i)
            h = py_snaps[k].get(i)
            if d is None or h is None:
                problems.append(("snapshot-missing", f"marker {k}: LCD {i} missing"))
                continue
            compared += 1
            drows = [to_host_chars(r) for r in d["rows"]]
            hrows = list(h["rows"])
            for r in hrows:
                if len(r) != lcd["cols"]:
                    problems.append(("host-row-length", f"host row has length {len(r)} on a {lcd['cols']}-column display"))
            if len(drows) != len(hrows):
                problems.append(("row-count", f"marker {k}: device has {len(drows)} rows, host {len(hrows)}"))
                continue
            for ri, (a, b) in enumerate(zip(drows, hrows)):
                if a == b:
                    continue
                if op["lcd"] == i and op.get("tol_row") == ri:
                    # progress bar with an inexact fraction: filled lengths may differ by one cell
                    da = sum(1 for x, y in zip(a, b) if x != y)
                    if da <= 1:
                        continue
                    problems.append(("progress-more-than-one-cell", f"marker {k} ({op['kind']} {json.dumps({x: op[x] for x in ('val', 'mx', 'w_eff', 'label') if x in op})}): device row {a!r} vs host row {b!r}"))
                    continue
                problems.append((f"cells:{op['kind']}", f"marker {k} after {op['kind']}: LCD {i} row {ri}: device {a!r} vs host {b!r}"))
            # backlight
            if lcd["bl"] is not None:
                level = aw_at.get(k, {}).get(lcd["bl"])
                want = h["brightness"] if h["backlight"] else 0
                if level != want:
                    problems.append(("backlight-pin", f"marker {k} after {op['kind']}: backlight pin {lcd['bl']} at {level}, host says {'on' if h['backlight'] else 'off'} brightness {h['brightness']} -> {want}"))
            elif lcd["i2c"]:
                if d["backlight"] != h["backlight"]:
                    problems.append(("backlight-i2c", f"marker {k} after {op['kind']}: I2C backlight {d['backlight']}, host {h['backlight']}"))
            if d["display"] != h["display"]:
                problems.append(("display-flag", f"marker {k}: display on={d['display']}, host {h['display']}"))
    return problems, compared


def run_case(case):
    idx, sd, hazards = case
    rng = rng_for(PROP, sd, idx, hazards)
    script, lcds, ops, in_loop = gen(rng, hazards)
    passes = 3 if in_loop else 1
    t = engine.transpile(script)
    out = {"script": script, "transpile": t["status"], "exc": t.get("exc")}
    if t["status"] != "ok":
        return out
    out["cpp"] = t["cpp"]
    with fw.Scratch() as wd:
        py = engine.host_reference(script, wd, passes=passes)
        out["py_status"] = py["status"]
        out["py_exc"] = py.get("exc")
        if py["status"] != "ok":
            return out
        f = engine.firmware(t["cpp"], wd, passes=passes)
        out["fw_status"] = f["status"]
        out["diag"] = engine.first_diag_line(f.get("diag", ""))
        if f["status"] != "ok":
            return out
        problems, compared = compare(f["events"], py["events"], lcds, ops)
        out["problems"] = problems[:8]
        out["compared"] = compared
        out["ops"] = len(ops)
        out["lcd_events"] = sum(1 for e in f["events"] if e[1] == "LCD")
        out["sample"] = [list(e) for e in f["events"] if e[1] in ("LCDSNAP",)][:3]
    return out


def judge(rep, res, hazard=None):
    w = {"script.py": res["script"], "sketch.cpp": res.get("cpp") or "", "detail.json": json.dumps({k: res.get(k) for k in ("problems", "fw_status", "diag", "exc", "py_exc")}, indent=1, default=str)}
    if res["transpile"] == "rejected" and re.search(r"align=al\d+", res["script"]):
        # the alignment-by-variable probe: rejecting it is fine
        rep.case(None, False)
        rep.count("align_variable_probe_rejected")
        return
    if res["transpile"] != "ok":
        rep.case(None, False)
        rep.violation(f"in-range LCD script not transpiled: {res['transpile']} {res.get('exc')}", w, key="transpile:" + str(res.get("exc"))[:40])
        return
    if res.get("py_status") != "ok":
        rep.case(None, False)
        rep.count("discarded_host_" + str(res.get("py_status")))
        return
    if res["fw_status"] != "ok":
        rep.case(None, False)
        rep.violation(f"LCD firmware: {res['fw_status']} {res.get('diag')}", w, key="fw:" + res["fw_status"])
        return
    rep.case(str(hash(res["script"])), res["compared"] > 0)
    rep.count("snapshots_compared", res["compared"])
    rep.count("lcd_operations", res["ops"])
    rep.count("lcd_write_events", res["lcd_events"])
    for key, msg in res["problems"]:
        fid = HAZARD_FINDING.get(hazard) if hazard else None
        if fid and fid in rep.open_findings:
            rep.known(fid, msg, w)
        else:
            rep.violation(msg, w, key=key)
    if len(rep.samples) < 3 and res["compared"] > 4:
        rep.sample({"script": res["script"][-700:], "device_snapshots": res["sample"]})


HAZARD_FINDING = {}


def main() -> int:
    rep = Report(PROP)
    t = tier()
    sd = seed()
    n = 300 if t == "quick" else 3000
    for case, st, res in run_cases(run_case, [(i, sd, ()) for i in range(n)]):
        if st != "ok":
            rep.inconclusive_because(f"case {case} failed: {res[-300:]}")
            continue
        judge(rep, res)
    # witnesses of the open findings (LCD snapshot comparison instead of the serial differential)
    from ..common import VERIF
    for f in rep.primary_findings:
        script = (VERIF / f["witness"]).read_text()
        lcds = [{"name": "lcd", "cols": 8, "rows": 1 if "1-row" in f["witness"] else 2, "i2c": False, "bl": None, "idx": 0}]
        ops = [{"k": 0, "lcd": 0, "kind": "message" if "message" in f["witness"] else "progress", "tol_row": None}]
        tr = engine.transpile(script)
        with fw.Scratch() as wd:
            py = engine.host_reference(script, wd, passes=1)
            fr = engine.firmware(tr["cpp"], wd, passes=1) if tr["status"] == "ok" else {"status": "n/a", "events": []}
        rep.count("witnesses_run")
        if tr["status"] != "ok" or py["status"] != "ok" or fr["status"] != "ok":
            rep.violation(f"witness of {f['id']} no longer runs: transpile {tr['status']}, host {py['status']}, firmware {fr['status']}", {"script.py": script}, key="witness:" + f["id"])
            continue
        problems, _ = compare(fr["events"], py["events"], lcds, ops)
        keys = [p[0] for p in problems]
        if not problems:
            print(f"note: witness of {f['id']} no longer reproduces (defect gone?)")
        elif f["expect_lcd"]["key"] in keys:
            rep.known(f["id"], f"{f['mechanism'][:120]} [witness {f['witness']}: {problems[0][1][:120]}]")
        else:
            rep.violation(f"witness of {f['id']} fails with a different symptom: {problems[0]}", {"script.py": script}, key="witness:" + f["id"])
    if t == "thorough":
        for hz in HAZARD_FINDING:
            for case, st, res in run_cases(run_case, [(i, sd, (hz,)) for i in range(150)]):
                if st == "ok":
                    judge(rep, res, hazard=hz)
    rep.rule = ("1-2 LCDs with cols 1..40 x rows 1..4 (biased to 16x2, 20x4, 8x1, 40x2, 1x1), both wirings, optional PWM backlight/RW pins; sequences of "
                "4-16 write/line/message/clear/progress/display/backlight/brightness/glyph calls with in-range row/column, text lengths {0, 1, space-1, "
                "space, space+1, 2*space}, all alignments and clear flags, progress values {<0, exact fractions, max, >max}, literal or run-time arguments; "
                "after every call the mock display's cell matrix, backlight pin level / flag and CGRAM are compared with the host LCD object. "
                "non-trivial = at least one snapshot pair compared")
    rep.assumptions = ["ASCII text; in-range row/column only (the host raises otherwise)", "progress bars with an inexact fraction may differ by one cell (statement) and are wiped before the next comparison",
                       "mock LiquidCrystal models DDRAM as a cols x rows matrix and reports writes outside it"]
    discards = sum(v for k, v in rep.counters.items() if k.startswith("discarded_host"))
    if discards > 0.3 * max(1, rep.evaluations):
        rep.inconclusive_because(f"{discards} of {rep.evaluations} scripts raised on the host")
    return rep.finish(min_distinct=40)


if __name__ == "__main__":
    raise SystemExit(main())
