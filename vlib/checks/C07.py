"""C07 - every line is accounted for and stays in the block Python assigns it to.
(a) env-guarded hook lists silently skipped lines -> each must belong to the allowed set;
(b) meaning-preserving re-layouts must not change the generated firmware (byte equality);
(c) a sample of re-laid-out scripts goes through the firmware differential."""
from __future__ import annotations

import ast
import json
import os
import re

from .. import engine
from ..common import REPO, Report, rng_for, run_cases, seed, tier, use_repo
from ..gen import corpus, layout, prog

PROP = "C07"
os.environ["REDUINO_VERIF"] = "1"

DEVICE_METHODS = {
    "Led": {"on", "off", "toggle", "get_state", "get_brightness", "set_brightness", "blink", "fade_in", "fade_out", "flash_pattern"},
    "RGBLed": {"set_color", "on", "off", "fade", "blink", "get_color", "get_state"},
    "Servo": {"write", "write_us", "read", "read_us"},
    "DCMotor": {"set_speed", "backward", "stop", "coast", "invert", "ramp", "run_for", "get_speed", "get_applied_speed", "is_inverted", "get_mode"},
    "Buzzer": {"play_tone", "stop", "beep", "sweep", "melody"},
    "LCD": {"write", "line", "message", "clear", "display", "backlight", "brightness", "glyph", "progress", "animate", "tick"},
    "Button": {"is_pressed"}, "Potentiometer": {"read"}, "Ultrasonic": {"measure_distance"},
    "SerialMonitor": {"write", "read", "close", "connect"},
}
HEADER_RE = re.compile(r"^(for|while|if|elif|else|try|except|finally|with|class|def|match|case|async)\b")


def declared_devices(script: str) -> dict:
    out = {}
    for m in re.finditer(r"^\s*([A-Za-z_]\w*)\s*=\s*(Led|RGBLed|Servo|DCMotor|Buzzer|LCD|Button|Potentiometer|Ultrasonic|SerialMonitor)\s*\(", script, re.M):
        out[m.group(1)] = m.group(2)
    return out


def classify(line: str, reason: str, devices: dict) -> tuple[str, str]:
    """-> ("allowed", why) or ("dropped", kind)"""
    text = line.strip()
    if reason in ("import", "target", "target-inline", "print", "constant-expression"):
        # the hook's own reason is only believed when the line really is of that kind
        try:
            body = ast.parse(text).body
        except SyntaxError:
            body = None
        st0 = body[0] if body and len(body) == 1 else None
        call = st0.value if isinstance(st0, ast.Expr) and isinstance(st0.value, ast.Call) and isinstance(st0.value.func, ast.Name) else None
        genuine = (
            (reason == "import" and isinstance(st0, (ast.Import, ast.ImportFrom)))
            or (reason in ("target", "target-inline") and (isinstance(st0, (ast.Import, ast.ImportFrom)) or (call is not None and call.func.id == "target")
                                                          or (isinstance(st0, ast.Assign) and isinstance(st0.value, ast.Call) and getattr(st0.value.func, "id", None) == "target")))
            or (reason == "print" and call is not None and call.func.id == "print")
            or (reason == "constant-expression" and isinstance(st0, ast.Expr) and not any(isinstance(n, (ast.Name, ast.Call, ast.Attribute)) for n in ast.walk(st0)))
            or body == []
        )
        if genuine:
            return "allowed", reason
        if body is None:
            return "dropped", f"mislabelled-{reason}:unparseable-fragment"
    m = HEADER_RE.match(text)
    if m and text.endswith(":"):
        if m.group(1) == "for":
            return "dropped", "header:for-range" if re.match(r"for\s+\w+\s+in\s+range\s*\(", text) else "header:for-in-iterable"
        return "dropped", "header:" + m.group(1)
    try:
        node = ast.parse(text).body
    except SyntaxError:
        return "dropped", "unparseable-fragment"
    if not node:
        return "allowed", "empty"
    if len(node) > 1:
        return "dropped", "semicolon-compound"
    st = node[0]
    if isinstance(st, (ast.Import, ast.ImportFrom)):
        return "allowed", "import"
    if isinstance(st, (ast.Pass, ast.Global, ast.Nonlocal)):
        return "allowed", type(st).__name__.lower()
    if isinstance(st, ast.Expr):
        v = st.value
        if isinstance(v, ast.Constant):
            return "allowed", "docstring-or-constant"
        if isinstance(v, ast.Call) and isinstance(v.func, ast.Name) and v.func.id in ("print", "target"):
            return "allowed", v.func.id
        if isinstance(v, ast.Call) and isinstance(v.func, ast.Attribute) and isinstance(v.func.value, ast.Name):
            dev = devices.get(v.func.value.id)
            if dev:
                if v.func.attr in DEVICE_METHODS.get(dev, set()):
                    return "dropped", f"device-call:{dev}.{v.func.attr}"
                return "dropped", "device-call:unknown-method"
            return "dropped", "call:method-on-non-device"
        if isinstance(v, ast.Call):
            return "dropped", "call:untranslatable"
        return "dropped", "expr:" + type(v).__name__
    if isinstance(st, ast.Assign):
        if len(st.targets) > 1:
            return "dropped", "assign:chained"
        t = st.targets[0]
        if isinstance(t, ast.Subscript):
            return "dropped", "assign:subscript"
        if isinstance(t, ast.Attribute):
            return "dropped", "assign:attribute"
        if isinstance(t, (ast.Tuple, ast.List)):
            return "dropped", "assign:unpack-non-tuple"
        return "dropped", "assign:other"
    if isinstance(st, ast.AugAssign):
        return "dropped", "augassign:" + type(st.target).__name__
    return "dropped", "stmt:" + type(st).__name__


SWEEP_STMTS = [
    "items[0] = 5", "a = b = 0", "z: int = 1", "assert n > 0", "del n", "continue", "led.foo()", "led.brightness = 3",
    "items[1] += 2", "n, *rest = items", "raise ValueError(\"x\")", "led.on(); led.off()", "import math", "from Reduino.Actuators import Led, Buzzer",
    "pass", "global n", "\"\"\"doc\"\"\"", "42", "print(\"host\")", "x = lambda: 1", "n = yield", "items.sort()", "items.insert(0, 1)", "mon.flush()",
    "led.set_brightness(n)", "led.toggle()", "sleep(n)", "mon.write(n)", "n += 1", "rgb.set_color(1, 2, 3)", "sv.write(n)", "mot.stop()",
    "bz.stop()", "lcd.clear()", "unknown_fn(n)", "n = n if n else 1", "(n)", "n", "-n", "not n", "n == 1", "[n for n in range(3)]", "items.append(n)",
    "with open(\"f\") as fh:\n    n = 1", "for v in items:\n    n = v", "for a, b in [(1, 2)]:\n    n = a", "while n:\n    n -= 1\nelse:\n    n = 0",
    "class K:\n    pass", "try:\n    n = 1\nfinally:\n    n = 2", "if n:\n    n = 1\n# c\nelse:\n    n = 2", "async def g():\n    pass",
    "match n:\n    case 1:\n        n = 2",
    # compound statements with several clauses: every header and every clause body is accounted for
    "try:\n    n = 1\nexcept ValueError:\n    n = 2\nexcept Exception as e:\n    n = 3", "try:\n    n = 1\nexcept ValueError:\n    n = 2\nexcept:\n    n = 3",
    "try:\n    n = 1\nexcept ValueError as err:\n    n = 2\nexcept Exception:\n    n = 3\nexcept:\n    n = 4", "try:\n    n = 1\nexcept:\n    n = 2",
    "if n:\n    n = 1\nelif n > 3:\n    pass\nelif n > 5:\n    n = 2\nelse:\n    n = 3", "if n:\n    pass\nelif n > 3:\n    print(\"host\")\nelse:\n    n = 3",
]

SWEEP_PRELUDE = corpus.HDR + """led = Led(13)
rgb = RGBLed(9, 10, 11)
sv = Servo(6)
mot = DCMotor(2, 4, 5)
bz = Buzzer(8)
lcd = LCD(rs=12, en=11, d4=5, d5=4, d6=3, d7=2)
items = [1, 2, 3]
n = 2
"""


def indent(text, k):
    return "\n".join(("    " * k + l) if l else l for l in text.splitlines())


def sweep_scripts():
    out = []
    for st in SWEEP_STMTS:
        out.append(("top", SWEEP_PRELUDE + st + "\n"))
        out.append(("branch", SWEEP_PRELUDE + "if n > 1:\n" + indent(st, 1) + "\n    n = 3\n"))
        out.append(("loop", SWEEP_PRELUDE + "for k in range(2):\n" + indent(st, 1) + "\n    n = 3\n"))
        if "yield" not in st:
            out.append(("function", SWEEP_PRELUDE + "def helper():\n" + indent(st, 1) + "\n    return 1\nn = helper()\n"))
        out.append(("main-loop", SWEEP_PRELUDE + "while True:\n" + indent(st, 1) + "\n    sleep(5)\n"))
    return out


def function_before_declaration_scripts():
    """A helper defined textually BEFORE the device it uses is declared (legal Python: the name is looked up at call time)."""
    out = []
    devs = [("bz", "Buzzer(8)", ["bz.stop()", "bz.play_tone(440)"]), ("rgb", "RGBLed(9, 10, 11)", ["rgb.off()", "rgb.set_color(1, 2, 3)"]),
            ("sv", "Servo(9)", ["sv.write(90)"]), ("mot", "DCMotor(2, 4, 5)", ["mot.stop()", "mot.set_speed(0.5)"]), ("led", "Led(13)", ["led.on()", "led.toggle()"]),
            ("lcd", "LCD(rs=12, en=11, d4=5, d5=4, d6=3, d7=2)", ["lcd.clear()", 'lcd.line(0, "x")']), ("mon2", "SerialMonitor(115200)", ['mon2.write("x")'])]
    for name, ctor, calls in devs:
        body = "".join(f"    {c}\n" for c in calls)
        out.append(corpus.HDR + f"def helper():\n{body}    return 1\n{name} = {ctor}\nq = helper()\nmon.write(q)\n")
        out.append(corpus.HDR + f"{name} = {ctor}\ndef helper():\n{body}    return 1\nq = helper()\nmon.write(q)\n")
    # ... and every method of every device class on its own (the finding lists the methods it covers, one by one)
    from .C08 import specs
    every = []
    for sp in specs():
        if sp["call"].startswith("d = ") or not sp["prelude"] or "zz = " in sp["call"]:
            continue
        every.append((sp["prelude"].strip(), sp["call"].format(args=", ".join(str(v) for v in sp["values"].values()))))
    for prelude, cs in corpus.ZERO_ARG_CALLS:
        every += [(prelude.strip(), c) for c in cs if not c.startswith("mon.write")]
    for decl, call in every:
        out.append(corpus.HDR + f"def helper():\n    {call}\n    return 1\n{decl}\nq = helper()\nmon.write(q)\n")
        out.append(corpus.HDR + f"{decl}\ndef helper():\n    {call}\n    return 1\nq = helper()\nmon.write(q)\n")
    return out


def readme_examples():
    txt = (REPO / "README.md").read_text()
    return [m.group(1) for m in re.finditer(r"```python\n(.*?)```", txt, re.S)]


def transpile_with_hook(script: str):
    use_repo()
    import Reduino.transpile.parser as P
    from Reduino.transpile.emitter import emit

    del P._VERIF_SKIPPED[:]
    try:
        with engine.time_limit(30):
            out = emit(P.parse(script))
        status = "ok"
    except engine.TranspileTimeout:
        out, status = "parse()/emit() did not return within 30 s", "timeout"
    except (ValueError, SyntaxError) as e:
        out = f"{type(e).__name__}"
        status = "rejected"
    except RecursionError:
        out, status = "RecursionError", "internal"
    except Exception as e:  # noqa: BLE001
        out, status = type(e).__name__, "internal"
    skipped = list(P._VERIF_SKIPPED)
    del P._VERIF_SKIPPED[:]
    return status, out, skipped


def case_skiplog(case):
    where, script = case
    status, out, skipped = transpile_with_hook(script)
    devices = declared_devices(script)
    recs = []
    lines = script.splitlines()
    for scope, depth, line, reason in skipped:
        verdict, kind = classify(line, reason, devices)
        if verdict == "dropped" and kind.startswith("device-call:") and scope == "function":
            # a call on a device that is declared only AFTER the enclosing def: its own, separately recorded mechanism
            try:
                at = next(i for i, l in enumerate(lines) if l.strip() == line.strip())
                name = line.strip().split(".")[0]
                decl = next(i for i, l in enumerate(lines) if re.match(rf"\s*{re.escape(name)}\s*=\s*\w+\(", l))
                if decl > at:
                    kind = "device-call-in-function-before-declaration:" + kind.split(":", 1)[1]   # Class.method
            except StopIteration:
                pass
        recs.append((scope, depth, line, reason, verdict, kind))
    return {"status": status, "records": recs, "script": script, "where": where}


def case_layout(case):
    idx, sd, script, n_variants = case
    base_status, base_out, _ = transpile_with_hook(script)
    res = []
    for k in range(n_variants):
        rng = rng_for(PROP, sd, "layout", idx, k)
        ops = None
        if k < len(layout.OPS):
            ops = [sorted(layout.OPS)[k]]
        r = layout.relayout(script, rng, ops)
        if r is None:
            continue
        new, names = r
        st, out, _ = transpile_with_hook(new)
        same = (st == base_status) and (out == base_out if st == "ok" else True)
        res.append({"ops": names, "same": same, "status": st, "variant": new if not same else None,
                    "diff": _first_diff(base_out, out) if not same and st == "ok" and base_status == "ok" else None})
    return {"base_status": base_status, "variants": res, "script": script}


def _first_diff(a: str, b: str):
    la, lb = a.splitlines(), b.splitlines()
    for i, (x, y) in enumerate(zip(la, lb)):
        if x != y:
            return {"line": i + 1, "base": x, "variant": y}
    return {"line": min(len(la), len(lb)) + 1, "base": "<eof>" if len(la) <= len(lb) else la[len(lb)], "variant": "<eof>" if len(lb) <= len(la) else lb[len(la)]}


def case_diff(case):
    idx, sd, script = case
    rng = rng_for(PROP, sd, "fwlayout", idx)
    r = layout.relayout(script, rng)
    if r is None:
        return {"skip": True}
    new, names = r
    d = engine.differential(new, passes=2, hazards=False)
    return {"ops": names, "outcome": d["outcome"], "divergence": d.get("divergence"), "variant": new, "cpp": d.get("cpp"),
            "n": d.get("n_model_events"), "fingerprint": d.get("fingerprint")}


LAYOUT_FINDINGS = {
    "header-comments": "KF-header-trailing-comment", "trailing-comments": "KF-header-trailing-comment",
    "comment-lines": "KF-comment-line-ends-block",
}


def main() -> int:
    rep = Report(PROP)
    t = tier()
    sd = seed()
    # ---- (a) skip log
    bases = corpus.mixed((PROP, sd), 40 if t == "quick" else 400, 10 if t == "quick" else 80, 10 if t == "quick" else 80)
    bases += readme_examples()
    cases = [("corpus", s) for s in bases] + sweep_scripts() + [("fn-before-decl", s) for s in function_before_declaration_scripts()]
    known_kinds = set()
    for f in rep.findings:
        known_kinds.update(f.get("kinds", []))
    kind_finding = {k: f["id"] for f in rep.findings for k in f.get("kinds", []) if f.get("status") == "open"}
    for case, st, out in run_cases(case_skiplog, cases, workers=8):
        if st != "ok":
            rep.inconclusive_because(f"skip-log case failed: {out[-300:]}")
            continue
        rep.case("skip:" + str(hash(out["script"])), bool(out["records"]))
        rep.count("scripts_parsed_with_hook")
        for scope, depth, line, reason, verdict, kind in out["records"]:
            rep.count("skipped_lines_seen")
            rep.count(f"skipped:{verdict}:{kind}")
            if verdict == "allowed":
                continue
            w = {"script.py": out["script"], "detail.json": json.dumps({"scope": scope, "depth": depth, "line": line, "reason": reason, "kind": kind}, indent=1)}
            fid = kind_finding.get(kind)
            if fid:
                rep.known(fid, f"statement silently dropped without diagnostic ({kind}, e.g. `{line[:60]}` in {scope} depth {depth})", w)
            else:
                rep.violation(f"statement silently dropped without diagnostic: `{line[:80]}` ({kind}; scope {scope}, depth {depth}, reason {reason})", w, key="dropped:" + kind)
    if rep.counters.get("skipped_lines_seen", 0) == 0:
        rep.inconclusive_because("the skip-log hook reported nothing at all (hook missing or REDUINO_VERIF not honoured)")
    # ---- (b) layout metamorphic
    lay_bases = [prog.generate((PROP, sd, "lay", i), "clean")["source"] for i in range(50 if t == "quick" else 700)]
    lay_bases += corpus.string_scripts(rng_for(PROP, sd, "s"), 12 if t == "quick" else 120) + corpus.lcd_scripts(rng_for(PROP, sd, "l"), 4 if t == "quick" else 40)
    lay_bases += corpus.promotion_scripts(rng_for(PROP, sd, "p"), 10 if t == "quick" else 100) + corpus.device_scripts(rng_for(PROP, sd, "d"), 10 if t == "quick" else 100) + readme_examples()
    from .C02 import poly_program
    lay_bases += [poly_program(rng_for(PROP, sd, "poly", i)) for i in range(30 if t == "quick" else 300)]
    nvar = 8 if t == "quick" else 20
    for case, st, out in run_cases(case_layout, [(i, sd, s, nvar) for i, s in enumerate(lay_bases)]):
        if st != "ok":
            rep.inconclusive_because(f"layout case failed: {out[-300:]}")
            continue
        for v in out["variants"]:
            rep.case("lay:" + str(hash((out["script"], tuple(v["ops"])))) + str(rep.evaluations), True)
            rep.count("layout_variants_compared")
            for o in v["ops"]:
                rep.count("layout_op:" + o)
            if v["same"]:
                continue
            w = {"script.py": out["script"], "variant.py": v["variant"] or "", "detail.json": json.dumps({"ops": v["ops"], "base_status": out["base_status"], "variant_status": v["status"], "first_difference": v["diff"]}, indent=1)}
            fids = [LAYOUT_FINDINGS[o] for o in v["ops"] if o in LAYOUT_FINDINGS and LAYOUT_FINDINGS[o] in rep.open_findings]
            msg = f"re-layout {v['ops']} changed the generated firmware (base {out['base_status']}, variant {v['status']}; first difference {v['diff']})"
            if fids:
                rep.known(fids[0], msg, w)
            else:
                rep.violation(msg, w, key="layout:" + "+".join(sorted(v["ops"])))
    # ---- (c) black-box differential on re-laid-out programs
    n_fw = 64 if t == "quick" else 400
    fw_cases = [(i, sd, prog.generate((PROP, sd, "fwl", i), "clean")["source"]) for i in range(n_fw)]
    fw_cases += [(n_fw + i, sd, poly_program(rng_for(PROP, sd, "polyfw", i))) for i in range(n_fw // 2)]
    fw_cases += [(2 * n_fw + i, sd, src) for i, src in enumerate(corpus.declared_in_block_scripts())]
    for case, st, out in run_cases(case_diff, fw_cases):
        if st != "ok":
            rep.inconclusive_because(f"fw layout case failed: {out[-300:]}")
            continue
        if out.get("skip"):
            continue
        rep.count("relayout_fw:" + out["outcome"])
        rep.case("fw:" + str(out.get("fingerprint")), out["outcome"] == "equal")
        if out["outcome"] in ("diverged", "fw-hang", "fw-crash", "uncompilable"):
            fids = [LAYOUT_FINDINGS[o] for o in out["ops"] if o in LAYOUT_FINDINGS and LAYOUT_FINDINGS[o] in rep.open_findings]
            msg = f"re-laid-out program ({out['ops']}) {out['outcome']}: {out.get('divergence')}"
            w = {"script.py": out["variant"], "sketch.cpp": out.get("cpp") or ""}
            if fids:
                rep.known(fids[0], msg, w)
            else:
                rep.violation(msg, w, key="fwlayout:" + out["outcome"])
    rep.sample({"sweep_statement_kinds": len(SWEEP_STMTS), "example": SWEEP_STMTS[:6]})
    rep.sample({"layout_operators": sorted(layout.OPS)})
    rep.rule = ("(a) generated programs, multi-device scripts, README examples and a statement-kind sweep (one script per Python statement kind x "
                "{top level, branch, loop, function body, main loop}) parsed with the REDUINO_VERIF hook on; each skipped line classified against the "
                "allowed set; (b) re-layout operators (do-nothing statements - pass, constant expressions, repeated imports - inserted inside blocks, comment lines at any column, trailing comments incl. block headers, blank lines, indent unit "
                "1-8 spaces or tabs, trailing whitespace, token spacing) applied singly and in combinations, ast.dump equality as the oracle that Python "
                "sees the same program, emitted text compared byte for byte; (c) re-laid-out generated programs through the firmware differential. "
                "non-trivial = a skipped line was observed / a variant was compared")
    rep.assumptions = ["hook commit in /repo (REDUINO_VERIF=1) reports every silent-skip site of _parse_simple_lines and parse()"]
    return rep.finish(min_distinct=100)


if __name__ == "__main__":
    raise SystemExit(main())
