"""C19 - host actuator models keep their invariants under every operation history.
icontract class invariants on the real classes + atomicity / sleep-ledger / step monitors."""
from __future__ import annotations

import copy
import json
import math

from ..common import Report, ensure_deps, rng_for, run_cases, seed, tier, use_repo

PROP = "C19"


class InvariantBroken(Exception):
    pass


EVALS = {"n": 0}


_CACHE = {}


def _setup():
    if "v" not in _CACHE:
        _CACHE["v"] = _setup_once()
    return _CACHE["v"]


def _setup_once():
    ensure_deps()
    use_repo()
    import sys

    import icontract
    import Reduino.Actuators as A

    LedM = sys.modules["Reduino.Actuators.Led"]
    RGBM = sys.modules["Reduino.Actuators.RGBLed"]
    ServoM = sys.modules["Reduino.Actuators.Servo"]
    DCM = sys.modules["Reduino.Actuators.DCMotor"]
    ledger = []
    real_sleep = A.sleep

    def recording_sleep(ms, **k):
        # the real Utils.sleep validates its argument (and raises) before it blocks: keep that, drop only the blocking
        real_sleep(ms, sleep_func=lambda seconds: None)
        ledger.append(ms)

    A.sleep = recording_sleep

    def led_ok(self):
        EVALS["n"] += 1
        b = self.brightness
        return isinstance(b, int) and not isinstance(b, bool) and 0 <= b <= 255 and (self.state is (b > 0)) \
            and self.get_state() is self.state and self.get_brightness() == b

    def rgb_ok(self):
        EVALS["n"] += 1
        c = self.get_color()
        return len(c) == 3 and all(isinstance(x, int) and not isinstance(x, bool) and 0 <= x <= 255 for x in c) \
            and (self.get_state() is any(x > 0 for x in c))

    def servo_ok(self):
        EVALS["n"] += 1
        a, p = self.read(), self.read_us()

        def bound(name):
            # the configured bounds, under whichever attribute spelling the class uses
            for cand in ("_" + name, name, name.replace("_pulse", "_pulse_us"), "_" + name.replace("_pulse", "_pulse_us")):
                if hasattr(self, cand):
                    return getattr(self, cand)
            return None

        lo, hi, plo, phi = bound("min_angle"), bound("max_angle"), bound("min_pulse"), bound("max_pulse")
        if None in (lo, hi, plo, phi):
            EVALS["servo_bounds_unreadable"] = EVALS.get("servo_bounds_unreadable", 0) + 1
            return True
        if not (lo <= a <= hi and plo <= p <= phi):
            return False
        expect = plo + (a - lo) / (hi - lo) * (phi - plo)
        return abs(p - expect) <= 1e-6 * max(1.0, phi - plo)

    def motor_ok(self):
        EVALS["n"] += 1
        s, ap = self.get_speed(), self.get_applied_speed()
        if not (isinstance(s, float) and -1.0 <= s <= 1.0):
            return False
        if ap != (-s if self.is_inverted() else s):
            return False
        m = self.get_mode()
        if (m == "drive") != (ap != 0.0):
            return False
        return m in ("drive", "brake", "coast")

    Led = icontract.invariant(led_ok, error=InvariantBroken)(LedM.Led)
    RGB = icontract.invariant(rgb_ok, error=InvariantBroken)(RGBM.RGBLed)
    Servo = icontract.invariant(servo_ok, error=InvariantBroken)(ServoM.Servo)
    Motor = icontract.invariant(motor_ok, error=InvariantBroken)(DCM.DCMotor)
    return Led, RGB, Servo, Motor, ledger


INTS_IN = [0, 1, 2, 5, 17, 100, 128, 254, 255]
INTS_OUT = [-1, 256, -100, 1000, 10 ** 6]
ODD = [True, False, 0.5, 255.0, 254.9, math.inf, -math.inf, "5", "x", None, 1.5, -0.0]
SPEEDS = [0.0, 0.25, -0.25, 1.0, -1.0, 0.5, 1e-9, -1e-9, 0.999, 1.5, -1.5, 10 ** 6, True, "0.5", "fast", None, math.inf, -math.inf, 1]
DURS = [0, 1, 10, 20, 100, 0.5, 19.99, -1, -0.5, True, "10", None]
SMALL = [1, 2, 3, 5, 0, -1, 2.5, True, "2", None, 50]


def state_of(obj):
    return copy.deepcopy({k: v for k, v in vars(obj).items()})


def is_scalar_args(args, kwargs):
    return all(not isinstance(a, (list, tuple, dict, set)) for a in list(args) + list(kwargs.values()))


def run_history(case):
    kind, sd, idx, length = case
    Led, RGB, Servo, Motor, ledger = _setup()
    r = rng_for(PROP, sd, kind, idx)
    problems = []
    ops_done = 0
    raised = 0
    log = []

    def pick(*pools):
        pool = r.choice(pools)
        return r.choice(pool)

    def call(obj, name, *args, **kwargs):
        nonlocal ops_done, raised
        before = state_of(obj)
        del ledger[:]
        try:
            getattr(obj, name)(*args, **kwargs)
            ok = True
            err = None
        except InvariantBroken as e:
            problems.append(("invariant", f"{kind}.{name}{args}{kwargs}: class invariant false after the call: {str(e)[:200]}", list(log)))
            ok = False
            err = e
        except RecursionError as e:
            ok, err = False, e
        except Exception as e:  # noqa: BLE001
            ok, err = False, e
        ops_done += 1
        log.append(f"{name}({', '.join([repr(a) for a in args] + [f'{k}={v!r}' for k, v in kwargs.items()])}) -> {'ok' if ok else type(err).__name__}")
        if not ok and not isinstance(err, InvariantBroken):
            raised += 1
            after = state_of(obj)
            if after != before and is_scalar_args(args, kwargs):
                problems.append(("atomicity", f"{kind}.{name}{args}{kwargs} raised {type(err).__name__} but changed the object: {before} -> {after}", list(log)))
        return ok, list(ledger)

    if kind == "led":
        obj = Led(r.choice([13, 5, 9])) if r.random() < 0.7 else Led()
        for _ in range(length):
            op = r.choice(["on", "off", "toggle", "set", "blink", "fade_in", "fade_out", "flash"])
            if op in ("on", "off", "toggle"):
                call(obj, op)
            elif op == "set":
                call(obj, "set_brightness", pick(INTS_IN, INTS_IN, INTS_OUT, ODD))
            elif op == "blink":
                d, t = pick(DURS), pick(SMALL)
                ok, led = call(obj, "blink", d, t) if r.random() < 0.5 else call(obj, "blink", d, times=t)
                if ok:
                    want = 2 * t * d
                    if abs(sum(led) - want) > 1e-9 or len(led) != 2 * t:
                        problems.append(("ledger", f"Led.blink({d!r}, {t!r}) slept {sum(led)} in {len(led)} calls, expected {want}", list(log)))
                    if obj.get_state():
                        problems.append(("blink-end", f"Led.blink left the LED on", list(log)))
            elif op in ("fade_in", "fade_out"):
                step = pick([1, 5, 50, 255, 300, 0.5, 100.5], SMALL)
                dl = pick(DURS)
                b0 = obj.get_brightness()
                seq = []
                real = type(obj).set_brightness
                ok, led = call(obj, op, step, dl) if r.random() < 0.5 else call(obj, op, step=step, delay_ms=dl)
                if ok:
                    end = 255 if op == "fade_in" else 0
                    if obj.get_brightness() != end:
                        problems.append(("fade-end", f"Led.{op} ended at {obj.get_brightness()}", list(log)))
            else:
                pat = [pick(INTS_IN, [0, 1]) for _ in range(r.randint(0, 5))]
                if r.random() < 0.2:
                    pat.append(pick(INTS_OUT, ["x", None]))
                dl = pick(DURS)
                ok, led = call(obj, "flash_pattern", pat, dl)
                if ok and pat:
                    if len(led) != len(pat) - 1:
                        problems.append(("ledger", f"flash_pattern({pat}) slept {len(led)} times", list(log)))
    elif kind == "rgb":
        obj = RGB(9, 10, 11)
        for _ in range(length):
            op = r.choice(["set", "on", "off", "fade", "blink"])
            comp = lambda: pick(INTS_IN, INTS_IN, INTS_IN, INTS_OUT, ODD)  # noqa: E731
            if op == "set":
                call(obj, "set_color", comp(), comp(), comp())
            elif op == "on":
                n = r.randint(0, 3)
                call(obj, "on", *[comp() for _ in range(n)])
            elif op == "off":
                call(obj, "off")
            elif op == "fade":
                tgt = (comp(), comp(), comp())
                dur = pick(DURS, [50, 1000])
                steps = pick(SMALL, [1, 2, 7, 50])
                start = obj.get_color()
                seq = []
                cls = type(obj)
                orig = cls.set_color

                def rec(self, a, b, c, _orig=orig, _seq=seq):
                    _orig(self, a, b, c)
                    _seq.append(self.get_color())

                cls.set_color = rec
                try:
                    ok, led = call(obj, "fade", *tgt, dur, steps) if r.random() < 0.5 else call(obj, "fade", *tgt, duration_ms=dur, steps=steps)
                finally:
                    cls.set_color = orig
                if ok:
                    if obj.get_color() != tuple(tgt):
                        problems.append(("fade-end", f"RGBLed.fade{tgt} from {start} ended on {obj.get_color()}", list(log)))
                    if dur != 0 and tuple(start) != tuple(tgt):
                        if len(seq) != steps:
                            problems.append(("fade-steps", f"RGBLed.fade took {len(seq)} steps, expected {steps}", list(log)))
                        for ch in range(3):
                            vals = [start[ch]] + [c[ch] for c in seq]
                            inc = all(vals[i] <= vals[i + 1] for i in range(len(vals) - 1))
                            dec = all(vals[i] >= vals[i + 1] for i in range(len(vals) - 1))
                            if not (inc or dec):
                                problems.append(("fade-monotone", f"RGBLed.fade channel {ch} not monotone: {vals}", list(log)))
                    if sum(led) > float(dur) + 1e-9:
                        problems.append(("ledger", f"RGBLed.fade slept {sum(led)} > requested {dur}", list(log)))
            else:
                col = (comp(), comp(), comp())
                t, dl = pick(SMALL), pick(DURS)
                start = obj.get_color()
                ok, led = call(obj, "blink", *col, t, dl) if r.random() < 0.5 else call(obj, "blink", *col, times=t, delay_ms=dl)
                if ok:
                    if obj.get_color() != start:
                        problems.append(("blink-restore", f"RGBLed.blink from {start} ended on {obj.get_color()}", list(log)))
                    if abs(sum(led) - 2 * t * dl) > 1e-9:
                        problems.append(("ledger", f"RGBLed.blink slept {sum(led)}, expected {2 * t * dl}", list(log)))
    elif kind == "servo":
        lo = r.choice([0.0, -90.0, 10, 45.5])
        hi = lo + r.choice([180.0, 90, 1.0, 270])
        plo = r.choice([544.0, 500, 1000, 0.5])
        phi = plo + r.choice([1856.0, 1000, 1, 2000.5])
        try:
            obj = Servo(r.choice([9, 3]), min_angle=lo, max_angle=hi, min_pulse_us=plo, max_pulse_us=phi)
        except Exception as e:  # noqa: BLE001
            return {"problems": [("ctor", f"Servo ctor raised {e!r}", [])], "ops": 0, "raised": 0, "evals": EVALS["n"]}
        angles = [lo, hi, (lo + hi) / 2, lo + 1e-9, hi - 1e-9, lo - 1, hi + 1, lo - 1e-9, hi + 1e-9, True, "90", None, math.inf, lo + (hi - lo) / 3]
        pulses = [plo, phi, (plo + phi) / 2, plo - 1, phi + 1, plo + 0.25, True, "1500", None, -math.inf, plo + (phi - plo) / 7]
        for _ in range(length):
            if r.random() < 0.5:
                a = r.choice(angles) if r.random() < 0.7 else r.uniform(lo - 5, hi + 5)
                ok, _ = call(obj, "write", a)
                if ok:
                    if obj.read() != float(a):
                        problems.append(("roundtrip", f"write({a!r}) then read() = {obj.read()!r}", list(log)))
            else:
                p = r.choice(pulses) if r.random() < 0.7 else r.uniform(plo - 50, phi + 50)
                ok, _ = call(obj, "write_us", p)
                if ok:
                    if obj.read_us() != float(p):
                        problems.append(("roundtrip", f"write_us({p!r}) then read_us() = {obj.read_us()!r}", list(log)))
    else:
        obj = Motor(4, 5, 6)
        last = "init"
        for _ in range(length):
            op = r.choice(["set_speed", "backward", "stop", "coast", "invert", "invert2", "ramp", "run_for"])
            if op == "set_speed":
                v = r.choice(SPEEDS) if r.random() < 0.7 else r.uniform(-1.3, 1.3)
                ok, _ = call(obj, "set_speed", v)
            elif op == "backward":
                if r.random() < 0.3:
                    ok, _ = call(obj, "backward")
                else:
                    ok, _ = call(obj, "backward", r.choice(SPEEDS))
                if ok and obj.get_speed() > 0:
                    problems.append(("backward", f"backward() left a positive speed {obj.get_speed()}", list(log)))
            elif op in ("stop", "coast"):
                ok, _ = call(obj, op)
                if ok and (obj.get_speed() != 0.0 or obj.get_mode() != ("brake" if op == "stop" else "coast")):
                    problems.append(("stop-coast", f"{op}() -> speed {obj.get_speed()} mode {obj.get_mode()}", list(log)))
            elif op == "invert":
                ok, _ = call(obj, "invert")
            elif op == "invert2":
                before = (obj.get_speed(), obj.get_applied_speed(), obj.is_inverted())
                ok1, _ = call(obj, "invert")
                ok, _ = call(obj, "invert")
                if ok1 and ok and (obj.get_speed(), obj.get_applied_speed(), obj.is_inverted()) != before:
                    problems.append(("involution", f"invert() twice: {before} -> {(obj.get_speed(), obj.get_applied_speed(), obj.is_inverted())}", list(log)))
                op = "invert"
            elif op == "ramp":
                tgt = r.choice(SPEEDS) if r.random() < 0.7 else r.uniform(-1.3, 1.3)
                dur = r.choice(DURS + [200, 1000])
                start = obj.get_speed()
                seq = []
                cls = type(obj)
                orig = cls.set_speed

                def rec(self, v, _orig=orig, _seq=seq):
                    _orig(self, v)
                    _seq.append(self.get_speed())

                cls.set_speed = rec
                try:
                    ok, led = call(obj, "ramp", tgt, dur) if r.random() < 0.5 else call(obj, "ramp", target_speed=tgt, duration_ms=dur)
                finally:
                    cls.set_speed = orig
                if ok:
                    want = max(-1.0, min(1.0, float(tgt)))
                    if abs(obj.get_speed() - want) > 1e-9:
                        problems.append(("ramp-end", f"ramp({tgt!r}) from {start} ended at {obj.get_speed()}, expected {want}", list(log)))
                    if len(seq) != 20:
                        problems.append(("ramp-steps", f"ramp took {len(seq)} steps", list(log)))
                    vals = [start] + seq
                    eps = 1e-12
                    inc = all(vals[i] <= vals[i + 1] + eps for i in range(len(vals) - 1))
                    dec = all(vals[i] + eps >= vals[i + 1] for i in range(len(vals) - 1))
                    if not (inc or dec):
                        problems.append(("ramp-monotone", f"ramp not monotone: {vals}", list(log)))
                    if sum(led) > float(dur) + 1e-6:
                        problems.append(("ledger", f"ramp slept {sum(led)} > requested {dur}", list(log)))
            else:
                dur = r.choice(DURS + [250])
                v = r.choice(SPEEDS)
                ok, led = call(obj, "run_for", dur, v) if r.random() < 0.5 else call(obj, "run_for", duration_ms=dur, speed=v)
                if ok:
                    if obj.get_mode() != "brake" or obj.get_speed() != 0.0:
                        problems.append(("run_for-end", f"run_for ended in mode {obj.get_mode()} speed {obj.get_speed()}", list(log)))
                    if len(led) != 1 or led[0] != dur:
                        problems.append(("ledger", f"run_for({dur!r}) slept {led}", list(log)))
            if ok:
                last = op
            # mode rule
            if obj.get_applied_speed() == 0.0:
                want_mode = "brake" if last in ("stop", "run_for") else "coast"
                if obj.get_mode() != want_mode:
                    problems.append(("mode-rule", f"applied speed 0 after last successful command {last!r}: mode {obj.get_mode()}, expected {want_mode}", list(log)))
    return {"problems": problems[:5], "ops": ops_done, "raised": raised, "evals": EVALS["n"], "log": log[:12],
            "final": repr(obj)}


def main() -> int:
    rep = Report(PROP)
    t = tier()
    sd = seed()
    n = 4000 if t == "quick" else 50000
    cases = []
    for kind in ("led", "rgb", "servo", "motor"):
        for i in range(n):
            cases.append((kind, sd, i, 1 + (i * 7) % 40))
    # chunk to amortise process overhead
    chunks = [cases[k:k + 100] for k in range(0, len(cases), 100)]

    def run_chunk(chunk):
        return [run_history(c) for c in chunk]

    for chunk, st, res in run_cases(_chunk_runner, chunks):
        if st != "ok":
            rep.inconclusive_because(f"chunk failed: {res[-300:]}")
            continue
        for case, out in zip(chunk, res):
            rep.case(f"{case[0]}:{out['final']}:{out['log'][-1] if out['log'] else ''}", out["ops"] >= 2)
            rep.count("operations", out["ops"])
            rep.count("operations_raising", out["raised"])
            rep.count("contract_evaluations", out["evals"])
            rep.count("histories:" + case[0])
            for key, msg, log in out["problems"]:
                rep.violation(msg, {"detail.json": json.dumps({"case": case, "history": log}, indent=1)}, key=f"{case[0]}:{key}")
            if len(rep.samples) < 4 and case[2] % 251 == 3:
                rep.sample({"object": case[0], "history": out["log"], "final": out["final"]})
    if rep.counters.get("contract_evaluations", 0) == 0:
        rep.inconclusive_because("no class-invariant evaluation was observed (contracts bypassed?)")
    rep.rule = ("seeded random method histories (length 1-40) per Led/RGBLed/Servo/DCMotor object with arguments from in-range, "
                "boundary, out-of-range and odd scalars (bool, float, +-inf, numeric strings, None; NaN excluded); icontract class "
                "invariants (the statement's clauses) after every call, state snapshot compared after every raising call, sleep "
                "ledger and per-step recorders for blink/fade/ramp/run_for. distinct = distinct (final state, last op); non-trivial = >= 2 operations")
    rep.assumptions = ["single-threaded per object (icontract checks run in the calling thread)", "NaN arguments excluded"]
    return rep.finish(min_distinct=200)


def _chunk_runner(chunk):
    out = []
    for c in chunk:
        EVALS["n"] = 0
        try:
            out.append(run_history(c))
        except InvariantBroken as e:
            # a broken invariant makes every later public call (getters included) fail its pre-check
            out.append({"problems": [("invariant", f"{c[0]}: class invariant false when a later call started: {str(e)[:300]}", [])],
                        "ops": 2, "raised": 0, "evals": EVALS["n"], "log": ["<history aborted by a broken invariant>"], "final": "<invariant broken>"})
    return out


if __name__ == "__main__":
    raise SystemExit(main())
