"""C08 - device calls bind arguments exactly like the Python signatures do.

For every constructor / method / Core helper, every calling convention accepted by
inspect.signature(host callable).bind is enumerated with distinct sentinel values per parameter; the
IR node produced by the transpiler is compared field by field with the bound arguments."""
from __future__ import annotations

import inspect
import itertools
import json
import re

from ..common import Report, seed, tier, use_repo

PROP = "C08"

IMPORTS = """from Reduino.Actuators import Led, RGBLed, Servo, DCMotor, Buzzer
from Reduino.Communication import SerialMonitor
from Reduino.Displays import LCD
from Reduino.Sensors import Button, Potentiometer, Ultrasonic
from Reduino.Utils import sleep
from Reduino.Core import pin_mode, digital_write, analog_write, digital_read, analog_read
"""


def ident(x):
    return x


# spec: name -> dict(host=callable path, prelude=lines, call=template with {args}, node=IR class name,
#                    values={param: python literal text}, fields={node_field: (param, conv)}, exprcall=C name)
def specs():
    S = []

    def add(name, host, call, node, values, fields, prelude="", skip=(), exprcall=None, where="setup"):
        S.append(dict(name=name, host=host, call=call, node=node, values=values, fields=fields, prelude=prelude,
                      skip=set(skip), exprcall=exprcall, where=where))

    i = int
    f = float
    add("Led()", "Actuators.Led.Led", "d = Led({args})", "LedDecl", {"pin": "11"}, {"pin": ("pin", i)})
    led = "d = Led(3)\n"
    add("Led.set_brightness", "Actuators.Led.Led.set_brightness", "d.set_brightness({args})", "LedSetBrightness",
        {"value": "11"}, {"value": ("value", i)}, led)
    add("Led.blink", "Actuators.Led.Led.blink", "d.blink({args})", "LedBlink", {"duration_ms": "11", "times": "22"},
        {"duration_ms": ("duration_ms", i), "times": ("times", i)}, led)
    add("Led.fade_in", "Actuators.Led.Led.fade_in", "d.fade_in({args})", "LedFadeIn", {"step": "11", "delay_ms": "22"},
        {"step": ("step", i), "delay_ms": ("delay_ms", i)}, led)
    add("Led.fade_out", "Actuators.Led.Led.fade_out", "d.fade_out({args})", "LedFadeOut",
        {"step": "11", "delay_ms": "22"}, {"step": ("step", i), "delay_ms": ("delay_ms", i)}, led)
    add("Led.flash_pattern", "Actuators.Led.Led.flash_pattern", "d.flash_pattern({args})", "LedFlashPattern",
        {"pattern": "[1, 0, 7]", "delay_ms": "22"}, {"pattern": ("pattern", list), "delay_ms": ("delay_ms", i)}, led)
    add("RGBLed()", "Actuators.RGBLed.RGBLed", "d = RGBLed({args})", "RGBLedDecl",
        {"red_pin": "11", "green_pin": "22", "blue_pin": "33"},
        {"red_pin": ("red_pin", i), "green_pin": ("green_pin", i), "blue_pin": ("blue_pin", i)})
    rgb = "d = RGBLed(3, 5, 6)\n"
    rgbv = {"red": "11", "green": "22", "blue": "33"}
    rgbf = {"red": ("red", i), "green": ("green", i), "blue": ("blue", i)}
    add("RGBLed.set_color", "Actuators.RGBLed.RGBLed.set_color", "d.set_color({args})", "RGBLedSetColor", rgbv, rgbf, rgb)
    add("RGBLed.on", "Actuators.RGBLed.RGBLed.on", "d.on({args})", "RGBLedOn", rgbv, rgbf, rgb)
    add("RGBLed.fade", "Actuators.RGBLed.RGBLed.fade", "d.fade({args})", "RGBLedFade",
        dict(rgbv, duration_ms="44", steps="55"), dict(rgbf, duration_ms=("duration_ms", i), steps=("steps", i)), rgb)
    add("RGBLed.blink", "Actuators.RGBLed.RGBLed.blink", "d.blink({args})", "RGBLedBlink",
        dict(rgbv, times="44", delay_ms="55"), dict(rgbf, times=("times", i), delay_ms=("delay_ms", i)), rgb)
    add("Servo()", "Actuators.Servo.Servo", "d = Servo({args})", "ServoDecl",
        {"pin": "11", "min_angle": "22", "max_angle": "33", "min_pulse_us": "444", "max_pulse_us": "555"},
        {"pin": ("pin", i), "min_angle": ("min_angle", f), "max_angle": ("max_angle", f),
         "min_pulse_us": ("min_pulse_us", f), "max_pulse_us": ("max_pulse_us", f)})
    sv = "d = Servo(3)\n"
    add("Servo.write", "Actuators.Servo.Servo.write", "d.write({args})", "ServoWrite", {"angle": "11"},
        {"angle": ("angle", f)}, sv)
    add("Servo.write_us", "Actuators.Servo.Servo.write_us", "d.write_us({args})", "ServoWriteMicroseconds",
        {"pulse": "1111"}, {"pulse_us": ("pulse", f)}, sv)
    add("DCMotor()", "Actuators.DCMotor.DCMotor", "d = DCMotor({args})", "DCMotorDecl",
        {"in1": "11", "in2": "22", "enable": "33"}, {"in1": ("in1", i), "in2": ("in2", i), "enable": ("enable", i)})
    mt = "d = DCMotor(3, 4, 5)\n"
    add("DCMotor.set_speed", "Actuators.DCMotor.DCMotor.set_speed", "d.set_speed({args})", "DCMotorSetSpeed",
        {"value": "0.25"}, {"speed": ("value", f)}, mt)
    add("DCMotor.backward", "Actuators.DCMotor.DCMotor.backward", "d.backward({args})", "DCMotorBackward",
        {"speed": "0.25"}, {"speed": ("speed", f)}, mt)
    add("DCMotor.ramp", "Actuators.DCMotor.DCMotor.ramp", "d.ramp({args})", "DCMotorRamp",
        {"target_speed": "0.25", "duration_ms": "22"}, {"target_speed": ("target_speed", f), "duration_ms": ("duration_ms", f)}, mt)
    add("DCMotor.run_for", "Actuators.DCMotor.DCMotor.run_for", "d.run_for({args})", "DCMotorRunFor",
        {"duration_ms": "11", "speed": "0.25"}, {"duration_ms": ("duration_ms", f), "speed": ("speed", f)}, mt)
    add("Buzzer()", "Actuators.Buzzer.Buzzer", "d = Buzzer({args})", "BuzzerDecl",
        {"pin": "11", "default_frequency": "222"}, {"pin": ("pin", i), "default_frequency": ("default_frequency", f)})
    bz = "d = Buzzer(3)\n"
    add("Buzzer.play_tone", "Actuators.Buzzer.Buzzer.play_tone", "d.play_tone({args})", "BuzzerPlayTone",
        {"frequency": "111", "duration_ms": "22"}, {"frequency": ("frequency", f), "duration_ms": ("duration_ms", "optf")}, bz)
    add("Buzzer.beep", "Actuators.Buzzer.Buzzer.beep", "d.beep({args})", "BuzzerBeep",
        {"frequency": "111", "on_ms": "22", "off_ms": "33", "times": "4"},
        {"frequency": ("frequency", "optf"), "on_ms": ("on_ms", f), "off_ms": ("off_ms", f), "times": ("times", i)}, bz)
    add("Buzzer.sweep", "Actuators.Buzzer.Buzzer.sweep", "d.sweep({args})", "BuzzerSweep",
        {"start_hz": "111", "end_hz": "222", "duration_ms": "33", "steps": "4"},
        {"start_hz": ("start_hz", f), "end_hz": ("end_hz", f), "duration_ms": ("duration_ms", f), "steps": ("steps", i)}, bz)
    add("Buzzer.melody", "Actuators.Buzzer.Buzzer.melody", "d.melody({args})", "BuzzerMelody",
        {"name": '"siren"', "tempo": "111"}, {"melody": ("name", str), "tempo": ("tempo", "optf")}, bz)
    lcdv = {"rs": "11", "en": "12", "d4": "13", "d5": "14", "d6": "15", "d7": "16", "cols": "20", "rows": "4",
            "rw": "17", "backlight_pin": "18"}
    add("LCD(parallel)", "Displays.LCD.LCD", "d = LCD({args})", "LCDDecl", lcdv,
        {k: (k, "opti") for k in lcdv}, skip=("i2c_addr",))
    add("LCD(i2c)", "Displays.LCD.LCD", "d = LCD({args})", "LCDDecl", {"i2c_addr": "39", "cols": "20", "rows": "4"},
        {"i2c_addr": ("i2c_addr", i), "cols": ("cols", i), "rows": ("rows", i)},
        skip=("rs", "en", "d4", "d5", "d6", "d7", "rw", "backlight_pin"))
    lcd = "d = LCD(rs=12, en=11, d4=5, d5=4, d6=3, d7=2, backlight_pin=9)\n"
    add("LCD.write", "Displays.LCD.LCD.write", "d.write({args})", "LCDWrite",
        {"col": "1", "row": "0", "text": '"T1"', "clear_row": "False", "align": '"right"'},
        {"col": ("col", i), "row": ("row", i), "text": ("text", str), "clear_row": ("clear_row", bool), "align": ("align", str)}, lcd)
    add("LCD.line", "Displays.LCD.LCD.line", "d.line({args})", "LCDLine",
        {"row": "1", "text": '"T1"', "align": '"center"', "clear_row": "False"},
        {"row": ("row", i), "text": ("text", str), "align": ("align", str), "clear_row": ("clear_row", bool)}, lcd)
    add("LCD.message", "Displays.LCD.LCD.message", "d.message({args})", "LCDMessage",
        {"top": '"T1"', "bottom": '"T2"', "top_align": '"right"', "bottom_align": '"center"', "clear_rows": "False"},
        {"top": ("top", "optstr"), "bottom": ("bottom", "optstr"), "top_align": ("top_align", str),
         "bottom_align": ("bottom_align", str), "clear_rows": ("clear_rows", bool)}, lcd)
    add("LCD.display", "Displays.LCD.LCD.display", "d.display({args})", "LCDDisplay", {"on": "False"}, {"on": ("on", bool)}, lcd)
    add("LCD.backlight", "Displays.LCD.LCD.backlight", "d.backlight({args})", "LCDBacklight", {"on": "False"}, {"on": ("on", bool)}, lcd)
    add("LCD.brightness", "Displays.LCD.LCD.brightness", "d.brightness({args})", "LCDBrightness", {"level": "111"}, {"level": ("level", i)}, lcd)
    add("LCD.glyph", "Displays.LCD.LCD.glyph", "d.glyph({args})", "LCDGlyph", {"slot": "3", "bitmap": "[1, 2, 3, 4, 5, 6, 7, 8]"},
        {"slot": ("slot", i), "bitmap": ("bitmap", list)}, lcd)
    add("LCD.progress", "Displays.LCD.LCD.progress", "d.progress({args})", "LCDProgress",
        {"row": "1", "value": "22", "max_value": "33", "width": "7", "style": '"hash"', "label": '"T1"'},
        {"row": ("row", i), "value": ("value", i), "max_value": ("max_value", i), "width": ("width", "opti"),
         "style": ("style", str), "label": ("label", "optstr")}, lcd)
    add("LCD.animate", "Displays.LCD.LCD.animate", "d.animate({args})", "LCDAnimate",
        {"animation": '"bounce"', "row": "1", "text": '"T1"', "speed_ms": "44", "loop": "True"},
        {"animation": ("animation", str), "row": ("row", i), "text": ("text", str), "speed_ms": ("speed_ms", i),
         "loop": ("loop", bool)}, lcd)
    add("Button()", "Sensors.Button.Button", "d = Button({args})", "ButtonDecl", {"pin": "11", "on_click": "cb"},
        {"pin": ("pin", i), "on_click": ("on_click", "name")}, prelude="def cb():\n    sleep(1)\n\n", skip=("state_provider",))
    add("Potentiometer()", "Sensors.Potentiometer.Potentiometer", "d = Potentiometer({args})", "PotentiometerDecl",
        {"pin": '"A3"'}, {"pin": ("pin", str)}, skip=("value_provider",))
    add("Ultrasonic()", "Sensors.Ultrasonic.Ultrasonic", "d = Ultrasonic({args})", "UltrasonicDecl",
        {"trig": "11", "echo": "22", "sensor": '"hc_sr04"'}, {"trig": ("trig", i), "echo": ("echo", i)},
        skip=("model", "distance_provider", "default_distance"))
    add("SerialMonitor()", "Communication.SerialMonitor.SerialMonitor", "d = SerialMonitor({args})", "SerialMonitorDecl",
        {"baud_rate": "1111"}, {"baud": ("baud_rate", i)}, skip=("port", "timeout", "newline"))
    add("sleep", "Utils.sleep", "sleep({args})", "Sleep", {"duration": "11"}, {"ms": ("duration", i)}, skip=("sleep_func",))
    add("pin_mode", "Core.pin_mode", "pin_mode({args})", "ExprStmt", {"pin": "11", "mode": "22"},
        {0: ("pin", i), 1: ("mode", i)}, exprcall="pinMode")
    add("digital_write", "Core.digital_write", "digital_write({args})", "ExprStmt", {"pin": "11", "value": "22"},
        {0: ("pin", i), 1: ("value", i)}, exprcall="digitalWrite")
    add("analog_write", "Core.analog_write", "analog_write({args})", "ExprStmt", {"pin": "11", "value": "22"},
        {0: ("pin", i), 1: ("value", i)}, exprcall="analogWrite")
    add("digital_read", "Core.digital_read", "zz = digital_read({args})", "VarAssign", {"pin": "11"},
        {0: ("pin", i)}, exprcall="digitalRead")
    add("analog_read", "Core.analog_read", "zz = analog_read({args})", "VarAssign", {"pin": "11"},
        {0: ("pin", i)}, exprcall="analogRead")
    # pins given by NAME (a string in Python, the bare Arduino constant in the sketch), positionally or by keyword
    add("analog_read(name)", "Core.analog_read", "zz = analog_read({args})", "VarAssign", {"pin": '"A0"'}, {0: ("pin", "rawpin")}, exprcall="analogRead")
    add("digital_read(name)", "Core.digital_read", "zz = digital_read({args})", "VarAssign", {"pin": '"A3"'}, {0: ("pin", "rawpin")}, exprcall="digitalRead")
    add("digital_write(name)", "Core.digital_write", "digital_write({args})", "ExprStmt", {"pin": '"A1"', "value": "22"}, {0: ("pin", "rawpin"), 1: ("value", i)}, exprcall="digitalWrite")
    add("pin_mode(name)", "Core.pin_mode", "pin_mode({args})", "ExprStmt", {"pin": '"A2"', "mode": "22"}, {0: ("pin", "rawpin"), 1: ("mode", i)}, exprcall="pinMode")
    add("analog_write(name)", "Core.analog_write", "analog_write({args})", "ExprStmt", {"pin": '"A4"', "value": "22"}, {0: ("pin", "rawpin"), 1: ("value", i)}, exprcall="analogWrite")
    return S


def resolve(path):
    import importlib
    import sys

    parts = path.split(".")
    # modules shadowed by same-named classes: walk sys.modules explicitly
    for cut in range(len(parts), 0, -1):
        modname = "Reduino." + ".".join(parts[:cut])
        try:
            importlib.import_module(modname)
        except Exception:  # noqa: BLE001
            continue
        obj = sys.modules[modname]
        for p in parts[cut:]:
            obj = getattr(obj, p)
        return obj
    raise ImportError(path)


def shapes(sig: inspect.Signature, values: dict, skip: set, cap: int):
    """Yield (args_text, bound_arguments) for every accepted calling convention over the parameters in
    `values` (others left at their defaults)."""
    params = [p for p in sig.parameters.values() if p.name != "self"]
    usable = [p for p in params if p.name in values and p.name not in skip]
    required = [p.name for p in usable if p.default is inspect.Parameter.empty]
    optional = [p.name for p in usable if p.default is not inspect.Parameter.empty]
    order = [p.name for p in params]
    pos_ok = [p.name for p in params if p.kind in (p.POSITIONAL_ONLY, p.POSITIONAL_OR_KEYWORD)]
    for r in range(len(optional) + 1):
        for opt in itertools.combinations(optional, r):
            present = [n for n in order if n in required or n in opt]
            # positional prefix: the first k parameters of the signature, all of which must be present
            max_k = 0
            for n in order:
                if n in present and n in pos_ok:
                    max_k += 1
                else:
                    break
            for k in range(max_k + 1):
                pos = order[:k]
                kw = [n for n in present if n not in pos]
                perms = itertools.islice(itertools.permutations(kw), cap)
                for perm in perms:
                    parts = [values[n] for n in pos] + [f"{n}={values[n]}" for n in perm]
                    yield ", ".join(parts), pos, list(perm)


def pyval(text):
    import ast as pyast

    try:
        return pyast.literal_eval(text)
    except Exception:  # noqa: BLE001
        return ("name", text)


def c_eval(text: str):
    """Evaluate the small C expressions the sentinel forms translate to (ternaries, casts, min/max/abs)."""
    t = text.replace("static_cast<int>(", "int(").replace("static_cast<float>(", "float(")
    for _ in range(4):
        t2 = re.sub(r"\(\(([^?]*?)\) \? ([^:]*?) : ([^()]*?)\)", r"((\2) if (\1) else (\3))", t)
        if t2 == t:
            break
        t = t2
    if not re.fullmatch(r"[0-9a-z_ ().,+\-*<>=!]+", t):
        raise ValueError(text)
    return eval(t, {"__builtins__": {}}, {"max": max, "min": min, "abs": abs, "int": int, "float": float})


def norm_node_value(v):
    """Turn an IR field (python value or C expression text) into a comparable python value."""
    if isinstance(v, str):
        s = v.strip()
        if s and s[0] != '"' and re.search(r"[?(*+]", s):
            try:
                return c_eval(s)
            except Exception:  # noqa: BLE001
                pass
        if len(s) >= 2 and s[0] == '"' and s[-1] == '"':
            return s[1:-1]
        if s in ("true", "false"):
            return s == "true"
        try:
            return int(s)
        except ValueError:
            pass
        try:
            return float(s)
        except ValueError:
            pass
        return s
    return v


def conv_expected(conv, val):
    if conv in ("opti", "optf", "optstr"):
        if val is None:
            return None
        conv = {"opti": int, "optf": float, "optstr": str}[conv]
    if conv == "name":
        return val[1] if isinstance(val, tuple) else val
    if conv is list:
        return [int(x) for x in val]
    if conv is str:
        return str(val)
    if conv is bool:
        return bool(val)
    if val is None:
        return None   # a host default of None where the table expects a number: compared as None (the node must say "absent" too)
    return conv(val)


def same(expected, got, conv):
    if expected is None:
        return got is None
    if isinstance(expected, float) or isinstance(got, float):
        try:
            return abs(float(expected) - float(got)) < 1e-9
        except (TypeError, ValueError):
            return False
    if conv is str and isinstance(got, str) and isinstance(expected, str):
        return expected.lower() == got.lower() if expected.lower() in ("left", "right", "center", "hash", "bounce", "siren") else expected == got
    return expected == got


def find_node(program, clsname):
    for body in (program.setup_body, program.loop_body):
        for n in body:
            if type(n).__name__ == clsname:
                return n
    return None


EXPR_FORMS = ["({v} if 1 == 1 else 0)", "{v} if 2 >= 1 else 7", "max({v}, 3)", "({v} + 0)", "min(999, {v})", "{v} if 3 != 4 else 1",
              "[{v}, 5][0]" if False else "({v})", "abs(-{v})", "{v} * 1", "int({v}.0)"]


TEXT_FORMS = ["a  b   c", "x, y=1", "  lead", "trail  ", "p (q)  r", "k=v,  w", "t #1  u", "a ,b", "m   =  n", "(  )"]


def main() -> int:
    rep = Report(PROP)
    use_repo()
    from Reduino.transpile.parser import parse

    cap = 6 if tier() == "quick" else 720
    missing_fields = set()
    total_shapes = 0
    per_callable = {}
    for sp in specs():
        host = resolve(sp["host"])
        sig = inspect.signature(host)
        vals = {k: pyval(v) for k, v in sp["values"].items()}
        n_ok = n_rej = n_bad = 0
        all_shapes = list(shapes(sig, sp["values"], sp["skip"], cap))
        # the same shapes again with one integer-valued argument written as an equivalent name-free expression
        # (comparisons, commas and parentheses inside an argument must not confuse the argument splitter)
        int_params = [f2 for f2, (p2, cv) in sp["fields"].items() if cv is int and isinstance(f2, str)]
        int_pnames = {sp["fields"][f2][0] for f2 in int_params}
        extra = []
        for n_shape, (args_text, pos, kw) in enumerate(all_shapes[:40]):
            cands = [n for n in (pos + kw) if n in int_pnames and sp["values"][n].isdigit()]
            if not cands:
                continue
            pn = cands[n_shape % len(cands)]
            form = EXPR_FORMS[(n_shape + len(sp["name"])) % len(EXPR_FORMS)]
            vals2 = dict(sp["values"])
            vals2[pn] = form.format(v=sp["values"][pn])
            parts = [vals2[n] for n in pos] + [f"{n}={vals2[n]}" for n in kw]
            extra.append((", ".join(parts), pos, kw, {pn: eval(vals2[pn], {"__builtins__": {}}, {"max": max, "min": min, "abs": abs, "int": int})}))
        # two or more arguments written with the very same text (binding goes by position / keyword, never by value)
        n_same = 0
        for args_text, pos, kw in all_shapes[:60]:
            cands = [n for n in (pos + kw) if sp["values"][n].replace(".", "", 1).isdigit()]
            if len(cands) < 2 or len(pos) < 1:
                continue
            vals2 = dict(sp["values"])
            for n in cands:
                vals2[n] = "44"
            parts = [vals2[n] for n in pos] + [f"{n}={vals2[n]}" for n in kw]
            extra.append((", ".join(parts), pos, kw, {n: 44 for n in cands}))
            n_same += 1
            if n_same >= 8:
                break
        # falsy values are values: an explicit 0 for a parameter that has a default is not "argument omitted"
        n_zero = 0
        for args_text, pos, kw in all_shapes[:40]:
            cands = [n for n in (pos + kw) if sp["values"][n].replace(".", "", 1).isdigit() and n in sig.parameters and sig.parameters[n].default is not inspect.Parameter.empty]
            if not cands:
                continue
            pn = cands[n_zero % len(cands)]
            vals2 = dict(sp["values"])
            vals2[pn] = "0"
            parts = [vals2[n] for n in pos] + [f"{n}={vals2[n]}" for n in kw]
            extra.append((", ".join(parts), pos, kw, {pn: 0}))
            n_zero += 1
            if n_zero >= 10:
                break
        rep.count("zero_valued_shapes", n_zero)
        # parameters that are fractions in the Python signature keep their fraction (whole-number sentinels cannot tell)
        float_pnames = {pp for f2, (pp, cv) in sp["fields"].items() if cv in (float, "optf")}
        n_frac = 0
        for args_text, pos, kw in all_shapes[:40]:
            cands = [n for n in (pos + kw) if n in float_pnames and sp["values"][n].isdigit()]
            if not cands:
                continue
            pn = cands[n_frac % len(cands)]
            vals2 = dict(sp["values"])
            vals2[pn] = sp["values"][pn] + ".5"
            parts = [vals2[n] for n in pos] + [f"{n}={vals2[n]}" for n in kw]
            extra.append((", ".join(parts), pos, kw, {pn: float(vals2[pn])}))
            n_frac += 1
            if n_frac >= 8:
                break
        rep.count("fractional_valued_shapes", n_frac)
        # free-text parameters keep their text byte for byte: runs of blanks, commas, `=`, `#` and parentheses inside a string
        # literal belong to the string, not to the call's layout (a splitter / normaliser working on the argument text must not touch them)
        text_pnames = {pp for f2, (pp, cv) in sp["fields"].items() if cv in (str, "optstr") and pp in ("text", "top", "bottom", "label")}
        n_text = 0
        for args_text, pos, kw in all_shapes[:40]:
            cands = [n for n in (pos + kw) if n in text_pnames and sp["values"][n].startswith('"')]
            if not cands:
                continue
            pn = cands[n_text % len(cands)]
            lit = TEXT_FORMS[(n_text + len(sp["name"])) % len(TEXT_FORMS)]
            vals2 = dict(sp["values"])
            vals2[pn] = '"' + lit + '"'
            parts = [vals2[n] for n in pos] + [f"{n}={vals2[n]}" for n in kw]
            extra.append((", ".join(parts), pos, kw, {pn: lit}))
            n_text += 1
            if n_text >= 10:
                break
        rep.count("layout_sensitive_text_shapes", n_text)
        rep.count("equal_text_shapes", n_same)
        rep.count("expression_valued_shapes", len(extra))
        for shape in [x + ({},) for x in all_shapes] + extra:
            args_text, pos, kw, override = shape
            # oracle: what Python binds
            a = [override.get(n, vals[n]) for n in pos]
            k = {n: override.get(n, vals[n]) for n in kw}
            try:
                if "self" in sig.parameters:
                    bound = sig.bind(None, *a, **k)
                else:
                    bound = sig.bind(*a, **k)
            except TypeError:
                rep.count("shapes_python_rejects")
                continue
            bound.apply_defaults()
            script = IMPORTS + sp["prelude"] + sp["call"].format(args=args_text) + "\n"
            total_shapes += 1
            fp = f"{sp['name']}({args_text})"
            try:
                program = parse(script)
            except (ValueError, SyntaxError):
                n_rej += 1
                rep.case(fp, False)
                rep.count("shapes_rejected_by_transpiler")
                continue
            except Exception as exc:  # noqa: BLE001
                rep.case(fp, False)
                rep.violation(f"{sp['name']}: internal error {type(exc).__name__} for call shape",
                              {"script.py": script}, key=f"internal:{sp['name']}")
                continue
            node = find_node(program, sp["node"])
            if node is None:
                n_bad += 1
                rep.case(fp, True)
                rep.violation(f"{sp['name']}: call accepted but no {sp['node']} node produced (call dropped)",
                              {"script.py": script}, key=f"dropped:{sp['name']}")
                continue
            rep.case(fp, True)
            mism = []
            if sp["exprcall"]:
                m = re.search(re.escape(sp["exprcall"]) + r"\((.*)\)", node.expr)
                got_args = [x.strip() for x in m.group(1).split(",")] if m else []
                for idx, (param, conv) in sp["fields"].items():
                    if conv == "rawpin":
                        # compared as emitted text: the sketch must name the pin constant, not a C string
                        exp, got = str(bound.arguments[param]), (got_args[idx] if idx < len(got_args) else None)
                        if exp != got:
                            mism.append((param, exp, got))
                        continue
                    exp = conv_expected(conv, bound.arguments[param])
                    got = norm_node_value(got_args[idx]) if idx < len(got_args) else None
                    if not same(exp, got, conv):
                        mism.append((param, exp, got))
            else:
                for field, (param, conv) in sp["fields"].items():
                    if param not in bound.arguments:
                        continue
                    exp = conv_expected(conv, bound.arguments[param])
                    if not hasattr(node, field):
                        # the IR node no longer has the attribute this table names: the check cannot observe that parameter
                        missing_fields.add(f"{sp['node']}.{field}")
                        continue
                    got = norm_node_value(getattr(node, field))
                    if sp["name"].startswith("LCD(") and param not in pos and param not in kw:
                        # defaults of the host constructor (None pins) have no node-side representation to compare
                        if exp is None:
                            continue
                    if not same(exp, got, conv):
                        mism.append((param, exp, got))
            if mism:
                n_bad += 1
                for param, exp, got in mism:
                    key = f"{sp['name']}:{param}"
                    fid = KNOWN.get(key)
                    w = {"script.py": script, "detail.json": json.dumps(
                        {"callable": sp["name"], "shape": args_text, "parameter": param, "python_binds": repr(exp),
                         "transpiler_bound": repr(got)}, indent=1)}
                    if fid and fid in rep.open_findings:
                        rep.known(fid, f"{sp['name']}: parameter `{param}` given by keyword is not bound as Python binds it "
                                       f"(e.g. `{args_text}` -> {got!r}, Python {exp!r})", w)
                    else:
                        rep.violation(f"{sp['name']}({args_text}): parameter `{param}` bound to {got!r}, Python binds {exp!r}",
                                      w, key=key)
            else:
                n_ok += 1
                if len(rep.samples) < 5 and kw:
                    rep.sample({"call": fp, "agrees_with": {k2: repr(v2) for k2, v2 in bound.arguments.items() if k2 != "self"}})
        # ---- writing a default out is the same as leaving the argument away (also for parameters this table does not enumerate), and
        # an argument for a parameter of the Python signature is never accepted and then ignored
        def node_text(args_text2):
            try:
                prog2 = parse(IMPORTS + sp["prelude"] + sp["call"].format(args=args_text2) + "\n")
            except (ValueError, SyntaxError):
                return None
            n2 = find_node(prog2, sp["node"])
            # (100 and 100.0 are the same argument value)
            return "<no node>" if n2 is None else re.sub(r"(?<![\w.])(-?\d+)\.0(?![\d])", r"\1", repr(n2))

        in_order = [p2.name for p2 in sig.parameters.values() if p2.name in sp["values"] and p2.name not in sp["skip"]]
        base_kw = {n: sp["values"][n] for n in in_order}
        base_text = node_text(", ".join(f"{n}={v}" for n, v in base_kw.items()))
        for p2 in sig.parameters.values():
            if p2.name == "self" or p2.kind in (p2.VAR_POSITIONAL, p2.VAR_KEYWORD) or base_text is None:
                continue
            d2 = p2.default
            has_simple_default = d2 is not inspect.Parameter.empty and (d2 is None or isinstance(d2, (bool, int, float, str)))
            if has_simple_default:
                if p2.name in base_kw:
                    without = {n: v for n, v in base_kw.items() if n != p2.name}
                    ref = node_text(", ".join(f"{n}={v}" for n, v in without.items()))
                    got = node_text(", ".join([f"{n}={v}" for n, v in without.items()] + [f"{p2.name}={d2!r}"]))
                else:
                    ref = base_text
                    got = node_text(", ".join([f"{n}={v}" for n, v in base_kw.items()] + [f"{p2.name}={d2!r}"]))
                rep.count("explicit_default_shapes")
                if got is not None and ref is not None and got != ref:
                    rep.violation(f"{sp['name']}: passing `{p2.name}={d2!r}` (the signature's default) explicitly is bound differently from omitting it",
                                  {"detail.json": json.dumps({"omitted": ref, "explicit": got}, indent=1)}, key=f"explicit-default:{sp['name']}:{p2.name}")
            if p2.name not in sp["values"] and p2.name not in sp["skip"]:
                # a parameter of the host signature that this table (and, presumably, the transpiler) does not know
                rep.count("host_parameters_outside_the_table")
                got = node_text(", ".join([f"{n}={v}" for n, v in base_kw.items()] + [f"{p2.name}=7"]))
                if got is not None and got == base_text:
                    rep.violation(f"{sp['name']}: `{p2.name}=7` is a parameter of the Python signature; the transpiler accepts the argument and ignores it",
                                  {"detail.json": json.dumps({"node": got}, indent=1)}, key=f"ignored-parameter:{sp['name']}:{p2.name}")
        # ---- the same call shapes as the SECOND call of a block, after a call that passed every parameter explicitly:
        # what an earlier call bound must not leak into parameters this call omits
        if sp["call"].startswith("d.") and not sp["exprcall"]:
            usable = [p.name for p in sig.parameters.values() if p.name in sp["values"] and p.name not in sp["skip"]]
            full = ", ".join(f"{n}={sp['values'][n]}" for n in usable)
            omitting = [sh for sh in all_shapes if len(sh[1]) + len(sh[2]) < len(usable)][:: max(1, len(all_shapes) // 10 or 1)][:12]
            for args_text, pos, kw in omitting:
                a = [vals[n] for n in pos]
                k = {n: vals[n] for n in kw}
                try:
                    bound = sig.bind(None, *a, **k) if "self" in sig.parameters else sig.bind(*a, **k)
                    full_ok = sig.bind(None, **{n: vals[n] for n in usable}) if "self" in sig.parameters else sig.bind(**{n: vals[n] for n in usable})
                except TypeError:
                    continue
                bound.apply_defaults()
                for wrapper in ("while True:\n    {a}\n    {b}\n    sleep(5)\n", "for q in range(2):\n    {a}\n    {b}\n", "if 1 == 1:\n    {a}\n    {b}\n"):
                    script = IMPORTS + sp["prelude"] + wrapper.format(a=sp["call"].format(args=full), b=sp["call"].format(args=args_text))
                    try:
                        program = parse(script)
                    except (ValueError, SyntaxError):
                        rep.count("sequence_shapes_rejected")
                        continue
                    found = []

                    def walk(nodes):
                        for n in nodes:
                            if type(n).__name__ == sp["node"]:
                                found.append(n)
                            for attr in ("body", "else_body", "orelse"):
                                sub = getattr(n, attr, None)
                                if isinstance(sub, list):
                                    walk(sub)
                            for br in getattr(n, "branches", []) or []:
                                walk(getattr(br, "body", []))

                    walk(program.setup_body)
                    walk(program.loop_body)
                    rep.count("sequence_shapes")
                    if len(found) < 2:
                        continue
                    node = found[1]
                    for field, (param, conv) in sp["fields"].items():
                        if param not in bound.arguments:
                            continue
                        exp = conv_expected(conv, bound.arguments[param])
                        if not hasattr(node, field):
                            missing_fields.add(f"{sp['node']}.{field}")
                            continue
                        got = norm_node_value(getattr(node, field))
                        if not same(exp, got, conv):
                            key = f"{sp['name']}:{param}"
                            fid = KNOWN.get(key)
                            if fid and fid in rep.open_findings:
                                continue
                            rep.violation(f"{sp['name']}({args_text}) as the second call of a block (after {sp['name']}({full})): parameter `{param}` "
                                          f"bound to {got!r}, Python binds {exp!r}", {"script.py": script}, key="sequence:" + key)
                            n_bad += 1
        per_callable[sp["name"]] = {"agree": n_ok, "rejected": n_rej, "disagree": n_bad}
    if missing_fields:
        rep.inconclusive_because(f"IR node attributes named by the observation table do not exist (renamed?): {sorted(missing_fields)[:8]}")
    rep.extra["per_callable"] = per_callable
    rep.extra["callables"] = len(per_callable)
    rep.rule = ("every positional/keyword split, keyword permutation (capped per split in quick tier) and subset of "
                "omitted defaults that inspect.signature(host).bind accepts, with distinct sentinel values per "
                "parameter; transpiler IR node fields compared with the bound arguments. non-trivial = accepted by "
                "the transpiler (a node was produced and compared)")
    rep.assumptions = ["field<->parameter table in vlib/checks/C08.py mirrors transpile/ast.py",
                       "host-only parameters (providers, port, timeout, newline, sleep_func) are not passed"]
    return rep.finish(min_distinct=200, exhaustive=tier() == "thorough")


# (callable:param) -> finding id
KNOWN = {
    "RGBLed.on:red": "KF-rgb-on-keywords", "RGBLed.on:green": "KF-rgb-on-keywords", "RGBLed.on:blue": "KF-rgb-on-keywords",
}

if __name__ == "__main__":
    raise SystemExit(main())
