"""C05 - setup()/loop() split: run-once prologue, repeated body, configure-before-use.
Temporal monitors over the firmware trace (unique statement markers) + CPython comparison for N = 0..3 passes."""
from __future__ import annotations

import json

from .. import engine, fw, trace, witness
from ..common import Report, rng_for, run_cases, seed, tier

PROP = "C05"

HDR = """from Reduino import target
target("COM3")
from Reduino.Actuators import Led, RGBLed, Servo, DCMotor, Buzzer
from Reduino.Communication import SerialMonitor
from Reduino.Displays import LCD
from Reduino.Sensors import Button, Potentiometer, Ultrasonic
from Reduino.Utils import sleep

"""


def gen(rng):
    """Script with unique markers S<id> on every statement; devices declared before the loop or at the top of its body."""
    L = HDR.splitlines()
    sid = [0]
    pre_ids, loop_ids = [], []
    pins = list(range(2, 14)) + [16, 17, 18, 19]
    rng.shuffle(pins)
    devices = []  # (kind, name, where, pins)
    serial_first = rng.random() < 0.7
    lines_pre = []
    lines_loop_head = []
    lines_loop = []

    def marker(where):
        sid[0] += 1
        (pre_ids if where == "pre" else loop_ids).append(sid[0])
        return f"mon.write(\"S{sid[0]}\")"

    kinds = ["led", "rgb", "servo", "motor", "button", "pot", "us", "buzzer", "lcd"]
    chosen = rng.sample(kinds, rng.randint(2, 6))
    has_main = rng.random() < 0.85
    decls = []
    for kind in chosen:
        hoistable = kind in ("led", "rgb", "servo", "motor", "button", "pot", "us")
        where = "loop" if (hoistable and has_main and rng.random() < 0.35 and kind != "button") else "pre"
        name = f"{kind}0"
        if kind == "led":
            p = [pins.pop()]
            d = f"{name} = Led({p[0]})"
            if rng.random() < 0.3 and where == "pre":
                # the pin comes from a variable computed in the prologue: configuration happens where the declaration is
                d = f"pinbase = {p[0] - 2}\nledpin = pinbase + 2\n{name} = Led(ledpin)"
        elif kind == "rgb":
            p = [pins.pop() for _ in range(3)]
            d = f"{name} = RGBLed({p[0]}, {p[1]}, {p[2]})"
        elif kind == "servo":
            p = [pins.pop()]
            d = f"{name} = Servo({p[0]})"
        elif kind == "motor":
            p = [pins.pop() for _ in range(3)]
            d = f"{name} = DCMotor({p[0]}, {p[1]}, {p[2]})"
        elif kind == "button":
            p = [pins.pop()]
            d = f"{name} = Button({p[0]})"
            if rng.random() < 0.5:
                d = f"def on_press():\n    mon.write(\"clk\")\n\n{name} = Button({p[0]}, on_click=on_press)"
        elif kind == "pot":
            p = [14 + rng.randint(0, 1)]
            d = f"{name} = Potentiometer(\"A{p[0] - 14}\")"
        elif kind == "us":
            p = [pins.pop(), pins.pop()]
            d = f"{name} = Ultrasonic({p[0]}, {p[1]})"
        elif kind == "buzzer":
            p = [pins.pop()]
            d = f"{name} = Buzzer({p[0]})"
        else:
            p = [pins.pop() for _ in range(6)]
            if rng.random() < 0.5:
                d = f"{name} = LCD(rs={p[0]}, en={p[1]}, d4={p[2]}, d5={p[3]}, d6={p[4]}, d7={p[5]})"
            else:
                d = f"{name} = LCD(i2c_addr=39)"
                p = []
        devices.append({"kind": kind, "name": name, "where": where, "pins": p})
        decls.append((where, d))

    def action(dev):
        k, n = dev["kind"], dev["name"]
        if k == "led":
            return rng.choice([f"{n}.toggle()", f"{n}.on()", f"{n}.set_brightness(100)"])
        if k == "rgb":
            return f"{n}.set_color(1, 2, 3)"
        if k == "servo":
            return f"{n}.write({rng.randint(10, 170)})"
        if k == "motor":
            return rng.choice([f"{n}.set_speed(0.5)", f"{n}.stop()"])
        if k == "button":
            return f"mon.write({n}.is_pressed())"
        if k == "pot":
            return f"mon.write({n}.read())"
        if k == "us":
            return f"mon.write({n}.measure_distance())"
        if k == "buzzer":
            return f"{n}.play_tone(440)"
        return rng.choice([f"{n}.line(0, \"hi\")", f"{n}.animate(\"blink\", 0, \"x\", speed_ms=10, loop=True)"])

    pre = []
    mon_decl = "mon = SerialMonitor(9600)"
    pre_decls = [d for w, d in decls if w == "pre"]
    loop_decls = [d for w, d in decls if w == "loop"]
    if any("on_press" in d for d in pre_decls):
        serial_first = True   # the callback writes to the monitor: declared first (a def before the device it uses is a known finding)
    if serial_first:
        pre.append(mon_decl)
        pre += pre_decls
    else:
        pre += pre_decls
        pre.append(mon_decl)
    bauds = [9600]
    if rng.random() < 0.3:
        seq = rng.choice([[115200, 9600], [57600], [115200, 115200, 9600]])
        for bi, bd in enumerate(seq):
            pre.append(f"mon = SerialMonitor({bd})")
            bauds.append(bd)
            pre.append(marker("pre"))
    btn_tape = rng.choice([[0, 1, 1, 0, 1], [1, 0, 1, 1, 0], [1, 1, 0, 0, 1]])
    prologue_read = None
    pre_btns = [d for d in devices if d["kind"] == "button" and d["where"] == "pre"]
    if pre_btns and rng.random() < 0.5:
        # a read in the run-once prologue sees the start-up sample (also for a button that has a callback)
        pre.append(f"mon.write(f\"p0={{int({pre_btns[0]['name']}.is_pressed())}}\")")
        prologue_read = btn_tape[0]
    pre.append("count = 0")
    pre.append("acc = 1")
    if rng.random() < 0.6:
        pre.append(f"base = {rng.randint(1, 5)}")
        pre.append(f"base = base + {rng.randint(2, 6)}")
        pre.append("ta, tb = base + 1, base * 2")
        pre.append("mon.write(f\"t={ta},{tb}\")")
        pre.append("tc = base + 3")
        pre.append("mon.write(tc)")
    # a variable whose FIRST assignment sits inside a block of the run-once prologue, re-assigned (plain `=`) in the loop body
    blk = None
    if rng.random() < 0.6:
        form = rng.choice(["if", "ifelse", "for", "while", "nested"])
        if form == "if":
            pre += ["if acc == 1:", "    blk = 5"]
            blk = 5
        elif form == "ifelse":
            pre += ["if acc > 1:", "    blk = 5", "else:", "    blk = 6"]
            blk = 6
        elif form == "for":
            pre += ["for fi in range(3):", "    blk = fi + 2"]
            blk = 4
        elif form == "while":
            pre += ["wq = 0", "while wq < 3:", "    wq += 1", "    blk = wq * 2"]
            blk = 6
        else:
            pre += ["for fi in range(2):", "    if fi == 1:", "        blk = 9", "    else:", "        blk = 3"]
            blk = 9
        pre.append("mon.write(f\"b0={blk}\")")
        # new globals derived right after the block ran (alone and in a tuple assignment): computed at this point of the prologue
        pre.append("der = blk * 3")
        pre.append("dt, du = blk + 1, 7")
        pre.append("mon.write(f\"d0={der},{dt},{du}\")")
    # a global set from a literal, changed inside a block of the prologue, then used to derive a new global
    seed_form = rng.choice(["for", "if", "while", None])
    if seed_form:
        pre.append("seedv = 2")
        pre += {"for": ["for fj in range(3):", "    seedv = seedv + 1"], "if": ["if seedv < 100:", "    seedv = seedv + 3"],
                "while": ["wj = 3", "while wj > 0:", "    wj -= 1", "    seedv += 1"]}[seed_form]
        pre += ["der2 = seedv * 3", "mon.write(f\"d1={der2}\")"]
    # pre-loop statements with markers and actions
    for _ in range(rng.randint(1, 5)):
        pre.append(marker("pre"))
        cands = [d for d in devices if d["where"] == "pre"]
        if cands and rng.random() < 0.6:
            act = action(rng.choice(cands))
            if ".animate(" in act and rng.random() < 0.6:
                # the animation is started from inside a block of the prologue: it is still ticked in every pass
                wrap = rng.choice(["if count == 0:", "for once in range(1):", "if count > 5:\n    pass\nelse:", "try:"])
                pre += wrap.split("\n") + ["    " + act] + (["except:", "    pass"] if wrap == "try:" else [])
            else:
                pre.append(act)
        if rng.random() < 0.3:
            pre.append(f"sleep({rng.choice([1, 5])})")
    body = []
    if has_main:
        body += loop_decls
        redo = [d for d in devices if d["kind"] == "led" and d["where"] == "pre"]
        if redo and pins and rng.random() < 0.3:
            # the same name re-bound to a Led on another pin at the top of the loop body
            newpin = pins.pop()
            body.append(f"{redo[0]['name']} = Led({newpin})")
            redo[0]["where"] = "loop"  # not comparable with CPython any more (fresh object per pass)
            redo[0]["pins"] = redo[0]["pins"] + [newpin]
        opening = None
        btns = [d for d in devices if d["kind"] == "button"]
        if btns and rng.random() < 0.5:
            # the loop body opens with the first assignment of a new name reading the button: the injected poll still comes first
            body.append(f"pressed = {btns[0]['name']}.is_pressed()")
            body.append("mon.write(f\"p={int(pressed)}\")")
            opening = "button"
        elif rng.random() < 0.3:
            body.append("seen = count")
            body.append("mon.write(f\"s={seen}\")")
            opening = "count"
        body.append("count += 1")
        body.append("acc = acc + count")
        body.append("mon.write(f\"c={count} a={acc}\")")
        looplocal = rng.random() < 0.5
        if looplocal:
            # a name first assigned (from a literal) directly in the loop body and changed later in the same pass:
            # Python re-runs the assignment on every pass
            body.append(rng.choice(["lvl = 0", "lvl = 2 - 2", "lvl, hi = 0, 10"]))
            body.append("lvl += count")
            body.append("mon.write(f\"l={lvl}\")")
        if blk is not None:
            body.append(rng.choice(["blk = blk + 1", "blk = 1 + blk", "blk = blk + count - count + 1"]))
            body.append("mon.write(f\"b={blk}\")")
        for _ in range(rng.randint(1, 5)):
            body.append(marker("loop"))
            if devices and rng.random() < 0.7:
                body.append(action(rng.choice(devices)))
        if rng.random() < 0.3:
            body.append("if count > 1:")
            body.append("    " + marker("loop-cond"))
            loop_ids.pop()
        body.append(f"sleep({rng.choice([1, 10, 60])})")
    L += pre
    if has_main:
        L.append("while True:" + rng.choice(["", "", "  # main loop", " # forever:", "  #"]))
        loop_lines = ["    " + b for b in body]
        for _ in range(rng.choice([0, 0, 1, 2])):
            # comment-only lines inside the loop body, at column 0 / less than the body's indent / deeper: they never end the loop
            pos = rng.randint(1, len(loop_lines))
            if pos < len(loop_lines) and loop_lines[pos].startswith("        "):
                continue   # (not between an if header and its body)
            loop_lines.insert(pos, rng.choice(["# ---- section ----", "#led.on()", "  # two spaces in", "        # deeper than the body", "# while True:", "#"]))
        L += loop_lines
    tapes = {"D": {}, "A": {}, "P": {}}
    for d in devices:
        if d["kind"] == "button":
            tapes["D"][str(d["pins"][0])] = list(btn_tape)
        if d["kind"] == "pot":
            tapes["A"][str(d["pins"][0])] = [100, 200, 300, 400, 500, 600]
        if d["kind"] == "us":
            tapes["P"][str(d["pins"][1])] = [580, 1160, 0, 0, 0, 2000, 583]
    animated = any(".animate(" in x for x in pre)
    baud_seq = bauds
    return "\n".join(L) + "\n", {"pre_ids": pre_ids, "loop_ids": loop_ids, "devices": devices, "has_main": has_main,
                                 "animated_in_setup": animated and has_main, "bauds": baud_seq, "blk": blk, "seed_form": seed_form, "opening": opening if has_main else None, "looplocal": has_main and looplocal, "btn_tape": btn_tape, "prologue_read": prologue_read,
                                 "callback": any("on_press" in d for w, d in decls)}, tapes


USE_KINDS = {"DW", "AW", "DR", "AR", "TONE", "NOTONE", "PULSE"}


def monitor(events, meta, passes):
    problems = []
    pre_ids, loop_ids = meta["pre_ids"], meta["loop_ids"]
    # ---- markers: exactly once / once per pass, in order
    cur = -1
    seen_pre = []
    per_pass = {}
    pm = {}        # pin -> mode configured
    sbegin = False
    attached = set()
    lcd_begun = set()
    first_use_problem = set()
    poll_pins = {d["pins"][0]: d for d in meta["devices"] if d["kind"] == "button"}
    motor = [d for d in meta["devices"] if d["kind"] == "motor"]
    motor_stopped = {d["name"]: 0 for d in motor}
    pass_events = {}
    pre_events = []
    values = []
    for t, kind, f in events:
        if kind == "PASS":
            cur = int(f[0])
            pass_events[cur] = []
            continue
        if cur >= 0 and kind not in ("HEAP", "LCDSNAP", "PASS_END", "END"):
            pass_events[cur].append((kind, f))
        elif cur < 0:
            pre_events.append((kind, f))
        if kind == "SER":
            text = trace.unesc(f[0])
            if "NOBEGIN" in f[2:]:
                problems.append(("serial-before-begin", f"Serial used before Serial.begin (line {text!r})"))
            if text.startswith(("c=", "b=", "b0=", "p=", "p0=", "s=", "l=", "d0=", "d1=")):
                values.append((cur, text))
            if text.startswith("S") and text[1:].isdigit():
                n = int(text[1:])
                if cur < 0:
                    seen_pre.append(n)
                else:
                    per_pass.setdefault(cur, []).append(n)
        elif kind == "SBEGIN":
            sbegin = True
        elif kind == "PM":
            pin = int(f[0])
            if pin in pm and pm[pin] != f[1]:
                problems.append(("pin-reconfigured", f"pin {pin} configured {pm[pin]} then {f[1]}"))
            pm[pin] = f[1]
            # (a pinMode repeated inside loop() with the same mode is not excluded by the statement; a different mode is
            # reported above, a missing one by use-before-pinmode)
        elif kind == "SERVO_ATTACH":
            attached.add(int(f[0]))
            if cur >= 0:
                problems.append(("config-in-loop", f"servo attach inside loop() pass {cur}"))
        elif kind in ("SERVO_WRITE", "SERVO_WRITEUS"):
            if int(f[0]) not in attached:
                problems.append(("servo-before-attach", f"servo {f[0]} commanded before attach"))
        elif kind == "LCD":
            if f[1] == "BEGIN":
                lcd_begun.add(f[0])
                if cur >= 0:
                    problems.append(("config-in-loop", f"LCD begin/init inside loop() pass {cur}"))
            elif f[1] in ("W", "CLEAR", "GLYPH") and f[0] not in lcd_begun:
                problems.append(("lcd-before-begin", f"LCD {f[0]} {f[1]} before begin()/init()"))
        if kind in ("DW", "AW", "TONE") and int(f[0]) not in pm:
            key = (kind, int(f[0]))
            if key not in first_use_problem:
                first_use_problem.add(key)
                problems.append(("use-before-pinmode", f"{kind} on pin {f[0]} before any pinMode for it"))
        if kind in ("DR",) and int(f[0]) in poll_pins and int(f[0]) not in pm:
            problems.append(("use-before-pinmode", f"button pin {f[0]} read before pinMode"))
    if sorted(seen_pre) != sorted(pre_ids) or seen_pre != pre_ids:
        problems.append(("prologue-markers", f"pre-loop markers seen in setup(): {seen_pre}, source order {pre_ids}"))
    for k in range(passes):
        got = per_pass.get(k, [])
        got_main = [n for n in got if n in loop_ids]
        if got_main != loop_ids:
            problems.append(("loop-markers", f"pass {k}: loop-body markers {got_main}, source order {loop_ids}"))
        leaked = [n for n in got if n in pre_ids]
        if leaked:
            problems.append(("prologue-in-loop", f"pre-loop statements {leaked} executed again in pass {k}"))
    # ---- variable lifetime: values carry over from the prologue and from pass to pass exactly as in Python
    want = []
    blk = meta.get("blk")
    if meta.get("prologue_read") is not None:
        want.append((-1, f"p0={meta['prologue_read']}"))
    if blk is not None:
        want.append((-1, f"b0={blk}"))
        want.append((-1, f"d0={blk * 3},{blk + 1},7"))
    if meta.get("seed_form"):
        want.append((-1, "d1=15"))
    if meta["has_main"]:
        acc = 1
        tape = meta.get("btn_tape") or [0, 1, 1, 0, 1]
        for k in range(passes):
            acc += k + 1
            if meta.get("opening") == "button":
                want.append((k, f"p={tape[min(k + 1, len(tape) - 1)]}"))
            elif meta.get("opening") == "count":
                want.append((k, f"s={k}"))
            want.append((k, f"c={k + 1} a={acc}"))
            if meta.get("looplocal"):
                want.append((k, f"l={k + 1}"))
            if blk is not None:
                want.append((k, f"b={blk + k + 1}"))
    if values != want:
        i = next((i for i, (a, b) in enumerate(zip(values, want)) if a != b), min(len(values), len(want)))
        problems.append(("variable-lifetime", f"printed variable values (pass, text) {values[i:i + 2]}, Python's {want[i:i + 2]}"))
    # ---- a DC motor is driven to a safe stop (both direction pins low, enable at 0) in setup(), before its first command
    for d in motor:
        in1, in2, en = d["pins"]
        touched = [(cur_k, kind, int(f[0]), int(f[1])) for cur_k, (kind, f) in
                   [(-1, e) for e in pre_events] + [(k, e) for k in sorted(pass_events) for e in pass_events[k]]
                   if kind in ("DW", "AW") and int(f[0]) in (in1, in2, en)]
        first = touched[:3]
        ok = len(first) == 3 and all(k == -1 for k, *_ in first) and \
            sorted((kind, pin, v) for _, kind, pin, v in first) == sorted([("DW", in1, 0), ("DW", in2, 0), ("AW", en, 0)])
        if touched and not ok:
            problems.append(("motor-safe-stop", f"{d['name']} (declared {d['where']}): first writes to its pins are {[(k, kind, pin, v) for k, kind, pin, v in first]}, "
                                                f"expected the safe stop (IN1=0, IN2=0, EN=0) inside setup()"))
    # ---- Serial.begin calls follow the declarations in source order
    got_bauds = [int(f[0]) for t, kind, f in events if kind == "SBEGIN"]

    def squeeze(seq):
        # re-opening the port at the rate it already has changes nothing: consecutive repeats are not counted
        out = []
        for x in seq:
            if not out or out[-1] != x:
                out.append(x)
        return out

    if squeeze(got_bauds) != squeeze(meta.get("bauds", got_bauds)):
        problems.append(("serial-begin-sequence", f"Serial.begin sequence {got_bauds}, declarations in source order {meta.get('bauds')}"))
    # ---- LCD animation tick: an animation started in setup() is advanced in the first pass (its first tick is never gated)
    if meta.get("animated_in_setup") and passes >= 1:
        if not any(kind == "LCD" and f[1] == "W" for kind, f in pass_events.get(0, [])):
            problems.append(("lcd-tick-missing", "an LCD animation was started in setup() but loop() pass 0 contains no LCD tick write"))
    # ---- button poll: exactly one read per pass, first event of the pass
    for pin, d in poll_pins.items():
        for k in range(passes):
            evs = pass_events.get(k, [])
            reads = [i for i, (kind, f) in enumerate(evs) if kind == "DR" and int(f[0]) == pin]
            if len(reads) != 1:
                problems.append(("button-poll-count", f"button pin {pin}: {len(reads)} reads in pass {k}"))
            elif any(kind not in ("DR", "MS") and not (kind == "LCD") for kind, f in evs[: reads[0]]):
                problems.append(("button-poll-late", f"button pin {pin} sampled after user statements in pass {k}: {evs[:reads[0]][:2]}"))
    return problems


def run_case(case):
    idx, sd = case
    rng = rng_for(PROP, sd, idx)
    script, meta, tapes = gen(rng)
    out = {"script": script}
    t = engine.transpile(script)
    out["transpile"] = t["status"]
    out["exc"] = t.get("exc")
    if t["status"] != "ok":
        return out
    out["cpp"] = t["cpp"]
    out["runs"] = []
    with fw.Scratch() as wd:
        b = fw.build(t["cpp"], wd)
        if not b["ok"]:
            out["fw_status"] = "uncompilable"
            out["diag"] = engine.first_diag_line(b["diag"])
            return out
        uses_us = any(d["kind"] == "us" for d in meta["devices"])
        # a device declared inside the loop body is a fresh Python object on every pass but one hoisted device on the
        # board: only scripts declaring everything before the loop are compared with CPython
        comparable = not any(d["where"] == "loop" for d in meta["devices"])
        if meta.get("callback") and (not meta["has_main"] or meta["btn_tape"][0] == 1):
            # a script without a main loop ends in Python while the board keeps polling (and firing the callback); a button held
            # at power-up is "already pressed" on the board but a rising edge for the freshly created host object
            comparable = False
        for n in (0, 1, 2, 3):
            f = fw.run(b["binary"], wd, passes=n, tapes=tapes)
            r = {"n": n, "fw_status": f["status"]}
            if f["status"] == "ok":
                r["problems"] = monitor(f["events"], meta, n)[:6]
                r["events"] = len(f["events"])
                py = engine.host_reference(script, wd, tapes=tapes, passes=n) if comparable else {"status": "skipped"}
                r["py_status"] = py["status"]
                if py["status"] == "ok":
                    keep = ("SER", "PASS")
                    fm = trace.fw_model(f["events"], keep=keep)
                    pm = trace.py_model(py["events"], keep=keep)
                    if not py.get("has_main_loop"):
                        fm = [e for e in fm if e["k"] != "PASS"]
                    r["divergence"] = trace.compare(fm, pm, timing=not uses_us)
                    r["compared"] = len(pm)
            out["runs"].append(r)
    out["fw_status"] = "ok"
    return out


def break_case(case):
    """`break` at main-loop level must be rejected at transpile time."""
    idx, sd = case
    variants = [
        "while True:\n    mon.write(1)\n    break\n",
        "while True:\n    if count > 2:\n        break\n    count += 1\n",
        "while True:\n    count += 1\n    if count > 1:\n        if count > 2:\n            break\n",
        "while True:\n    try:\n        break\n    except:\n        count = 0\n",
        "while True:\n    count += 1\n    if count > 5:\n        count = 0\n    elif count > 3:\n        break\n    else:\n        mon.write(count)\n",
        "while True:\n    count += 1\n    if count > 5:\n        count = 0\n    else:\n        break\n",
        "while True:\n    try:\n        count += 1\n    except:\n        break\n",
        "while True:  # main loop\n    if count > 2:\n        if count > 3:\n            mon.write(1)\n        else:\n            break\n    count += 1\n",
    ]
    inner_ok = "while True:\n    for i in range(3):\n        if i == 1:\n            break\n        mon.write(i)\n    sleep(5)\n"
    script = HDR + "mon = SerialMonitor(9600)\ncount = 0\n" + (variants[idx % len(variants)] if idx < 16 else inner_ok)
    t = engine.transpile(script)
    return {"script": script, "status": t["status"], "exc": t.get("exc"), "expect_reject": idx < 16}


HELPER_ONLY = [
    # the monitor / a device is used ONLY from helper functions: its one-time configuration still belongs to setup()
    "mon = SerialMonitor(9600)\ndef say():\n    mon.write(\"hi\")\n    return 1\nq = say()\n",
    "mon = SerialMonitor(115200)\ndef tick(n):\n    mon.write(n)\n    return n + 1\ncount = 0\nwhile True:\n    count = tick(count)\n    sleep(5)\n",
    "led = Led(13)\nmon = SerialMonitor(9600)\ndef blink_once():\n    led.toggle()\n    mon.write(\"t\")\n\nwhile True:\n    blink_once()\n    sleep(10)\n",
    "mon = SerialMonitor(9600)\nsv = Servo(9)\ndef park():\n    sv.write(10)\n    return 0\ndef log(v):\n    mon.write(v)\n    return v\nz = park()\nwhile True:\n    z = log(z + 1)\n    sleep(5)\n",
]


def helper_only_case(case):
    idx, = case
    script = HDR + HELPER_ONLY[idx]
    r = engine.differential(script, passes=3)
    return {"script": script, "outcome": r["outcome"], "divergence": r.get("divergence"), "diag": r.get("diag"), "cpp": r.get("cpp")}


def main() -> int:
    rep = Report(PROP)
    t = tier()
    sd = seed()
    n = 180 if t == "quick" else 1500
    for case, st, res in run_cases(run_case, [(i, sd) for i in range(n)]):
        if st != "ok":
            rep.inconclusive_because(f"case {case} failed: {res[-300:]}")
            continue
        w = {"script.py": res["script"], "sketch.cpp": res.get("cpp") or "", "detail.json": json.dumps({k: res.get(k) for k in ("runs", "fw_status", "diag", "exc")}, indent=1, default=str)}
        if res["transpile"] != "ok":
            rep.case(None, False)
            rep.violation(f"documented-style script not transpiled: {res['transpile']} {res.get('exc')}", w, key="transpile:" + str(res.get("exc"))[:40])
            continue
        if res["fw_status"] != "ok":
            rep.case(None, False)
            rep.violation(f"firmware: {res['fw_status']} {res.get('diag')}", w, key="fw:" + res["fw_status"])
            continue
        for r in res["runs"]:
            rep.case(f"{hash(res['script'])}:{r['n']}", r.get("events", 0) > 3)
            rep.count(f"runs_N={r['n']}")
            if r["fw_status"] != "ok":
                rep.violation(f"firmware run with N={r['n']}: {r['fw_status']}", w, key="fwrun:" + r["fw_status"])
                continue
            rep.count("trace_events_monitored", r.get("events", 0))
            for key, msg in r.get("problems", []):
                rep.violation(f"N={r['n']}: {msg}", w, key=key)
            if r.get("py_status") == "ok":
                rep.count("cpython_comparisons")
                if r.get("divergence"):
                    d = r["divergence"]
                    rep.violation(f"N={r['n']}: firmware differs from CPython: {d['why']} fw={d['fw']} py={d['py']}", w, key="cpython:" + d["why"][:30])
            elif r.get("py_status"):
                rep.count("cpython_discarded_" + r["py_status"])
        if len(rep.samples) < 3:
            rep.sample({"script": res["script"][-800:], "runs": [{k: r.get(k) for k in ("n", "events", "compared")} for r in res["runs"]]})
    for case, st, res in run_cases(break_case, [(i, sd) for i in range(18)]):
        if st != "ok":
            continue
        rep.case("break:" + str(case[0]), True)
        rep.count("break_cases")
        if res["expect_reject"] and res["status"] != "rejected":
            rep.violation(f"`break` at main-loop level was not rejected ({res['status']})", {"script.py": res["script"]}, key="break-main-loop")
        if not res["expect_reject"] and res["status"] != "ok":
            rep.violation(f"`break` inside an inner loop of the main loop was rejected: {res['exc']}", {"script.py": res["script"]}, key="break-inner")
    for case, st, res in run_cases(helper_only_case, [(i,) for i in range(len(HELPER_ONLY))]):
        if st != "ok":
            rep.inconclusive_because(f"helper-only case {case} failed: {res[-200:]}")
            continue
        rep.case("helper-only:" + str(case[0]), res["outcome"] == "equal")
        rep.count("helper_only_cases:" + res["outcome"])
        if res["outcome"] in ("diverged", "uncompilable", "fw-crash", "fw-hang"):
            d = res.get("divergence") or {}
            rep.violation(f"device used only from helper functions: {res['outcome']} {d.get('why') or res.get('diag')} fw={d.get('fw')} py={d.get('py')}",
                          {"script.py": res["script"], "sketch.cpp": res.get("cpp") or ""}, key="helper-only")
    witness.check_witnesses(rep)
    rep.rule = ("scripts with/without `while True:`, 2-6 devices of every kind declared before the loop or (hoistable kinds) at the top of its body, serial monitor "
                "declared before or after the other devices, every statement carrying a unique serial marker or a device action, counters crossing passes; each "
                "firmware is run for N = 0,1,2,3 passes: temporal monitors (markers exactly once / once per pass in source order, pinMode/Serial.begin/attach/LCD "
                "begin before first use, no re-configuration to another mode, no configuration inside loop(), button sampled exactly once per pass before user "
                "statements) + comparison of serial lines, pass boundaries and virtual time with CPython. non-trivial = run produced > 3 events")
    rep.assumptions = ["device kinds the emitter does not hoist from the loop body (Buzzer, LCD, SerialMonitor) are declared before the main loop"]
    return rep.finish(min_distinct=100)


if __name__ == "__main__":
    raise SystemExit(main())
