"""C15 - inputs: button edges, pot reads and ultrasonic ranging behave as documented.
Trace monitors over the firmware log with scripted digitalRead/analogRead/pulseIn tapes + host Button replay."""
from __future__ import annotations

import json
import struct

from .. import engine, fw, trace
from ..common import Report, rng_for, run_cases, seed, tier

PROP = "C15"

HDR = """from Reduino import target
target("COM3")
from Reduino.Communication import SerialMonitor
from Reduino.Sensors import Button, Potentiometer, Ultrasonic
from Reduino.Utils import sleep

mon = SerialMonitor(9600)
"""


def f32(x):
    return struct.unpack("f", struct.pack("f", float(x)))[0]


def gen(rng, passes):
    L = HDR.splitlines()
    info = {"buttons": [], "pots": [], "us": []}
    tapes = {"D": {}, "A": {}, "P": {}}
    nb = rng.choice([0, 1, 1, 2])
    for i in range(nb):
        pin = 2 + i
        cb = rng.random() < 0.7
        if cb:
            L += [f"def on_{i}():", f"    mon.write(\"click:{i}\")"] + ([f"    sleep({rng.choice([1, 3, 25])})"] if rng.random() < 0.3 else []) + [""]   # (a handler may block)
    shared = nb == 2 and "def on_0():" in L and "def on_1():" in L and rng.random() < 0.4
    tied = nb == 2 and rng.random() < 0.25     # two Button objects wired to ONE pin (two handlers for one physical key)
    for i in range(nb):
        pin = 2 + (0 if tied else i)
        cb = f"def on_{i}():" in L
        form = rng.choice(["pos", "kw", "var", "expr"])
        pin_src = str(pin)
        if form == "var":
            L.append(f"BTN_PIN{i} = {pin}")
            pin_src = f"BTN_PIN{i}"
        elif form == "expr":
            pin_src = f"{pin - 1} + 1"
        h = 0 if (shared and cb) else i   # two buttons may share one handler
        if cb:
            L.append(f"btn{i} = Button({pin_src}, on_click=on_{h})" if form != "kw" else f"btn{i} = Button(pin={pin_src}, on_click=on_{h})")
        else:
            L.append(f"btn{i} = Button({pin_src})")
        mode = rng.choice(["bursts", "held", "bounce", "start-pressed", "idle"])
        n = passes + 1
        if mode == "bursts":
            sig = [1 if rng.random() < 0.4 else 0 for _ in range(n)]
            sig[0] = 0
        elif mode == "held":
            a = rng.randint(1, max(1, n - 2))
            sig = [0] * a + [1] * (n - a)
        elif mode == "bounce":
            sig = [(k % 2) for k in range(n)]
        elif mode == "start-pressed":
            sig = [1] + [1 if rng.random() < 0.6 else 0 for _ in range(n - 1)]
        else:
            sig = [0] * n
        if i == 1 and (tied or rng.random() < (0.7 if shared else 0.25)):
            # both buttons change in the same passes (simultaneous edges)
            sig = list(info["buttons"][0]["sig"])
        if tied:
            # every Button object samples the pin itself: one read per object at start-up and per pass
            tapes["D"][str(pin)] = [v for v in info["buttons"][0]["sig"] for _ in (0, 1)] if i == 1 else list(sig)
        else:
            tapes["D"][str(pin)] = sig
        info["buttons"].append({"name": f"btn{i}", "pin": pin, "cb": cb, "sig": sig, "idx": i, "handler": h if cb else None, "nshare": 2 if tied else 1})
        if rng.random() < 0.3:
            # the cached sample read through a user helper function (defined after the Button it reads)
            L += [f"def peek{i}():", f"    return btn{i}.is_pressed()", ""]
            info["buttons"][-1]["peek"] = True
    npot = rng.choice([0, 1, 1])
    for i in range(npot):
        apin = rng.choice([0, 1, 3])
        if rng.random() < 0.3:
            # the same name first bound to another analogue pin, read once there, then re-declared
            first = rng.choice([p for p in (0, 1, 2, 3) if p != apin])
            fvals = [rng.choice([7, 300, 1000])] * 3
            tapes["A"][str(14 + first)] = fvals
            L += [f"pot{i} = Potentiometer(\"A{first}\")", f"mon.write(\"@A:pot{i}@first\")", f"mon.write(pot{i}.read())"]
            info["pots"].append({"name": f"pot{i}@first", "pin": 14 + first, "vals": fvals})
        L.append(f"pot{i} = Potentiometer(\"A{apin}\")")
        vals = [rng.choice([0, 1, 511, 512, 1022, 1023, rng.randint(0, 1023)]) for _ in range(passes * 4 + 4)]
        if rng.random() < 0.3:
            # a busy-wait whose body is empty: the condition is still evaluated (one conversion per test) until it fails
            j = rng.randint(0, 3)
            vals[:j] = [rng.choice([0, 100, 599]) for _ in range(j)]
            vals[j] = rng.choice([600, 1023, 777])
            L += [f"mon.write(\"@AW:pot{i}:{j + 1}\")", f"while pot{i}.read() < 600:", "    pass", "mon.write(7)"]
        tapes["A"][str(14 + apin)] = vals
        info["pots"].append({"name": f"pot{i}", "pin": 14 + apin, "vals": vals})
    nus = rng.choice([0, 1, 1, 2])
    for i in range(nus):
        trig, echo = 8 + 2 * i, 9 + 2 * i
        L.append(f"us{i} = Ultrasonic({trig}, {echo})" if rng.random() < 0.5 else f"us{i} = Ultrasonic(trig={trig}, echo={echo}, sensor=\"HC-SR04\")")
        vals = [rng.choice([0, 0, 58, 583, 1166, 5830, 23200, 29999, 30000, 30001, 40000, rng.randint(100, 25000)]) for _ in range(passes * 6 + 6)]
        if rng.random() < (0.2 if i == 0 else 0.5):
            vals = [0] * len(vals)   # never an echo: the fallback is this sensor's own (400 cm), not another sensor's reading
        elif i == 0 and nus == 2:
            vals[0] = 583            # the first sensor starts with a good reading
        long_gap = rng.random() < 0.15
        if long_gap:
            vals = [rng.choice([583, 1166, 5830])] + [0] * (len(vals) - 1)   # one good echo, then silence for a long time
        tapes["P"][str(echo)] = vals
        via_helper = rng.random() < 0.2
        if via_helper:
            L += [f"def probe_us{i}():", f"    return us{i}.measure_distance()", ""]
        info["us"].append({"name": f"us{i}", "trig": trig, "echo": echo, "vals": vals, "via_helper": via_helper, "long_gap": long_gap})
    if not (nb or npot or nus):
        return gen(rng, passes)
    # optional reads in setup
    if info["pots"] and rng.random() < 0.4:
        L.append(f"mon.write(\"@A:{info['pots'][-1]['name']}\")")
        L.append(f"mon.write({info['pots'][-1]['name']}.read())")
    if info["us"] and rng.random() < 0.4:
        L.append(f"mon.write(\"@U:{info['us'][0]['name']}\")")
        L.append(f"mon.write({info['us'][0]['name']}.measure_distance())")
    L.append("npass = 0")
    L.append("while True:")
    body = []
    opened = []
    if len(info["buttons"]) == 1 and not info["buttons"][0].get("peek") and rng.random() < 0.25:
        # the button is declared at the TOP of the loop body (the emitter hoists it): it still takes its start-up sample in setup(),
        # so a key held at power-up is not a click. (CPython makes a new Button per pass there: no host replay for these.)
        b0 = info["buttons"][0]
        k = next(i for i, ln in enumerate(L) if ln.startswith(f"{b0['name']} = Button("))
        body.append(L.pop(k))
        b0["loop_top"] = True
    for b in info["buttons"]:
        if rng.random() < 0.35:
            # the loop body OPENS with first assignments of new names that read the button
            body.append(f"pressed{b['idx']} = {b['name']}.is_pressed()")
            opened.append(b)
    if opened and rng.random() < 0.5:
        body.append("seen = npass")
    body.append("npass += 1")
    for b in opened:
        body.append(f"mon.write(\"@B:{b['name']}\")")
        body.append(f"mon.write(pressed{b['idx']})")
    nested_us = rng.random() < 0.3
    for b in info["buttons"]:
        for _ in range(rng.choice([0, 1, 1, 2])):
            body.append(f"mon.write(\"@B:{b['name']}\")")
            body.append(f"mon.write({b['name']}.is_pressed())")
        if b.get("peek"):
            for _ in range(rng.choice([1, 2])):
                body.append(f"mon.write(\"@B:{b['name']}\")")
                body.append(f"mon.write(peek{b['idx']}())")
        if rng.random() < 0.3:
            body.append(f"if {b['name']}.is_pressed():")
            body.append(f"    mon.write(\"held:{b['idx']}\")")
        if rng.random() < 0.3:
            body.append(f"spin{b['idx']} = 0")
            body.append(f"while {b['name']}.is_pressed() and spin{b['idx']} < 2:")
            body.append(f"    spin{b['idx']} += 1")
            body.append(f"mon.write(spin{b['idx']})")
    for p in info["pots"]:
        if "@first" in p["name"]:
            continue
        for _ in range(rng.choice([1, 1, 2, 3])):
            body.append(f"mon.write(\"@A:{p['name']}\")")
            if rng.random() < 0.5:
                body.append(f"mon.write({p['name']}.read())")
            else:
                body.append(f"pv = {p['name']}.read()")
                body.append("mon.write(pv)")
    for p in info["pots"]:
        if "@first" in p["name"]:
            continue
        if rng.random() < 0.35:
            # reads whose value is thrown away or only tested: still one conversion each (the throw-away read before the real one,
            # `reading or default`); only the number of conversions is judged here
            stmts = rng.sample([f"{p['name']}.read()", f"spare = {p['name']}.read() or 1", f"{p['name']}.read()\n{p['name']}.read()", f"if {p['name']}.read() > 2000:\n    mon.write(\"never\")",
                                f"gate = {p['name']}.read() > 5 and {p['name']}.read() >= 0", f"dd = 0\ndd = {p['name']}.read()\ndd = {p['name']}.read()"], rng.choice([1, 2]))
            for st in stmts:
                n_reads = st.count(".read()")
                if "and" in st:
                    continue   # (short-circuit: the number of conversions depends on the first value)
                body.append(f"mon.write(\"@AW:{p['name']}:{n_reads}\")")
                body += st.split("\n")
                body.append("mon.write(7)")
    for p in info["pots"]:
        if "@first" in p["name"]:
            continue
        if rng.random() < 0.25:
            # a comprehension that reads the input once per element: three conversions, three (possibly different) values
            body.append(f"mon.write(\"@AC:{p['name']}\")")
            body.append(f"win = [{p['name']}.read() for _ in range(3)]")
            body.append("mon.write(win[2])")
    for p in info["pots"]:
        if "@first" in p["name"]:
            continue
        if rng.random() < 0.3:
            # two reads in one parallel assignment are two conversions
            body.append(f"mon.write(\"@A:{p['name']}\")")
            body.append(f"ra, rb = {p['name']}.read(), {p['name']}.read()")
            body.append("mon.write(ra)")
            body.append(f"mon.write(\"@A2:{p['name']}\")")
            body.append("mon.write(rb)")
    for u in info["us"]:
        if u.get("via_helper"):
            # the sensor is read through a user helper function
            for _ in range(rng.choice([1, 2])):
                body.append(f"mon.write(\"@U:{u['name']}\")")
                body.append(f"dh = probe_{u['name']}()")
                body.append("mon.write(dh)")
            continue
        pre = ""
        if nested_us:
            # the sensor is only ever read inside a nested block
            body.append("if npass > 0:")
            pre = "    "
        for _ in range(rng.choice([1, 1, 2])):
            body.append(f"{pre}mon.write(\"@U:{u['name']}\")")
            if rng.random() < 0.5 or nested_us:
                body.append(f"{pre}mon.write({u['name']}.measure_distance())")
            else:
                body.append(f"dist = {u['name']}.measure_distance()")
                body.append("mon.write(dist)")
            if rng.random() < 0.5:
                body.append(f"{pre}sleep({rng.choice([0, 1, 30, 59, 60, 61, 200])})")
    rng.shuffle(body) if False else None
    body.append(f"sleep({rng.choice([0, 1, 30, 59, 60, 61, 200]) if not any(u.get('long_gap') for u in info['us']) else rng.choice([2500, 5000, 61])})")
    L += ["    " + b for b in body]
    return "\n".join(L) + "\n", tapes, info


def monitor(events, info, passes):
    problems = []
    counts = {"button_passes": 0, "pot_reads": 0, "us_calls": 0, "triggers": 0}
    # ---- buttons
    for b in info["buttons"]:
        pin = b["pin"]
        sig = b["sig"]

        def sample(k):  # k = -1 start-up, 0.. pass index
            i = k + 1
            return sig[i] if i < len(sig) else sig[-1]

        cur_pass = -1
        dr = {}
        clicks = {}
        prints = {}
        pending_print = False
        first_event_of_pass = {}
        for t, kind, f in events:
            if kind == "PASS":
                cur_pass = int(f[0])
                continue
            if kind == "DR" and int(f[0]) == pin:
                dr[cur_pass] = dr.get(cur_pass, 0) + 1
            if kind == "SER":
                text = trace.unesc(f[0])
                if text == f"click:{b['idx']}":
                    clicks[cur_pass] = clicks.get(cur_pass, 0) + 1
                elif text == f"@B:{b['name']}":
                    pending_print = True
                elif pending_print:
                    prints.setdefault(cur_pass, []).append(text)
                    pending_print = False
        ns = b.get("nshare", 1)   # Button objects on this pin: each takes its own single sample
        if dr.get(-1, 0) != ns:
            problems.append(("button-startup-sample", f"{b['name']}: {dr.get(-1, 0)} digitalRead in setup(), expected exactly {ns} start-up sample(s) ({ns} Button object(s) on pin {pin})"))
        for k in range(passes):
            counts["button_passes"] += 1
            if dr.get(k, 0) != ns:
                problems.append(("button-sample-count", f"{b['name']}: {dr.get(k, 0)} digitalRead of pin {pin} in pass {k}, expected exactly {ns}"))
            rising = bool(sample(k)) and not bool(sample(k - 1))
            want = 1 if (rising and b["cb"]) else 0
            sharing = [o for o in info["buttons"] if o.get("handler") is not None and o.get("handler") == b.get("handler")]
            if len(sharing) > 1 or (b["cb"] and b.get("handler") != b["idx"]):
                pass  # judged per handler below
            elif clicks.get(k, 0) != want:
                problems.append(("button-click", f"{b['name']}: on_click ran {clicks.get(k, 0)}x in pass {k} (sample {sample(k - 1)}->{sample(k)}), expected {want}"))
            for p in prints.get(k, []):
                if p != str(int(bool(sample(k)))):
                    problems.append(("button-value", f"{b['name']}: is_pressed() printed {p} in pass {k}, sample is {sample(k)}"))
        if clicks.get(-1, 0):
            problems.append(("button-click-startup", f"{b['name']}: on_click ran at start-up"))
    # ---- handlers shared by several buttons: one run per rising edge of EACH button
    handlers = {}
    for b in info["buttons"]:
        if b.get("handler") is not None:
            handlers.setdefault(b["handler"], []).append(b)
    for h, bs in handlers.items():
        if len(bs) < 2:
            continue
        ran = {}
        cur_pass = -1
        for t, kind, f in events:
            if kind == "PASS":
                cur_pass = int(f[0])
            elif kind == "SER" and trace.unesc(f[0]) == f"click:{h}":
                ran[cur_pass] = ran.get(cur_pass, 0) + 1
        for k in range(passes):
            want = 0
            for b in bs:
                sig = b["sig"]
                now = sig[k + 1] if k + 1 < len(sig) else sig[-1]
                before = sig[k] if k < len(sig) else sig[-1]
                want += 1 if (now and not before) else 0
            if ran.get(k, 0) != want:
                problems.append(("button-click-shared", f"handler on_{h} shared by {[b['name'] for b in bs]} ran {ran.get(k, 0)}x in pass {k}, {want} rising edges"))
    # ---- potentiometers
    for p in info["pots"]:
        vals = list(p["vals"])
        idx = 0
        fresh = 0
        waiting = False
        # positions of serial events that are followed (two serial lines later) by the "@A2" marker of a tuple read
        ser_idx = [n for n, (t, kind, f) in enumerate(events) if kind == "SER"]
        tuple_next = {}
        for j, n in enumerate(ser_idx):
            if j + 1 < len(ser_idx) and trace.unesc(events[ser_idx[j + 1]][2][0]) == f"@A2:{p['name']}":
                tuple_next[n] = True
        for evi, (t, kind, f) in enumerate(events):
            if kind == "AR" and int(f[0]) == p["pin"]:
                fresh += 1
                last = int(f[1])
            if kind == "SER":
                text = trace.unesc(f[0])
                if text.startswith(f"@AW:{p['name']}:"):
                    waiting = ("busy", int(text.rsplit(":", 1)[1]))
                    fresh = 0
                elif isinstance(waiting, tuple):
                    need = waiting[1]
                    waiting = False
                    counts["pot_reads"] += need
                    idx += need
                    if fresh != need:
                        problems.append(("pot-busy-wait", f"{p['name']}: {fresh} analogRead events between the marker and the next line, the statements there make {need} read() call(s)"))
                elif text == f"@AC:{p['name']}":
                    waiting = "comp"
                    fresh = 0
                elif waiting == "comp":
                    waiting = False
                    counts["pot_reads"] += 3
                    want = vals[idx + 2] if idx + 2 < len(vals) else vals[-1]
                    idx += 3
                    if fresh != 3:
                        problems.append(("pot-fresh-read", f"{p['name']}: {fresh} analogRead events for a 3-element comprehension of read() calls"))
                    elif text != str(want):
                        problems.append(("pot-value", f"{p['name']}: third element of the comprehension printed {text}, ADC tape value {want}"))
                elif text == f"@A2:{p['name']}":
                    waiting = "second"
                elif text == f"@A:{p['name']}":
                    waiting = True
                    fresh = 0
                elif waiting == "second":
                    waiting = False
                    counts["pot_reads"] += 1
                    want = vals[idx] if idx < len(vals) else vals[-1]
                    idx += 1
                    if fresh != 2:
                        problems.append(("pot-fresh-read", f"{p['name']}: {fresh} analogRead events for two read() calls in one tuple assignment"))
                    elif text != str(want):
                        problems.append(("pot-value", f"{p['name']}: second value of a tuple read printed {text}, ADC tape value {want}"))
                elif waiting and fresh == 2 and False:
                    pass
                elif waiting:
                    waiting = False
                    counts["pot_reads"] += 1
                    want = vals[idx] if idx < len(vals) else vals[-1]
                    idx += 1
                    if fresh == 2 and tuple_next.get(evi):
                        pass  # first value of a tuple read: both conversions precede the first print (checked at the @A2 marker)
                    elif fresh != 1:
                        problems.append(("pot-fresh-read", f"{p['name']}.read(): {fresh} analogRead events for one read() call"))
                    if text != str(want) and not (fresh != 1 and not tuple_next.get(evi)):
                        problems.append(("pot-value", f"{p['name']}.read() printed {text}, ADC tape value {want}"))
    # ---- ultrasonic
    for u in info["us"]:
        trig_times = []
        waiting = False
        seg_trigs = 0
        seg_echoes = []
        last_good = None
        for t, kind, f in events:
            if kind == "DW" and int(f[0]) == u["trig"] and f[1] == "1":
                trig_times.append(t)
                seg_trigs += 1
                counts["triggers"] += 1
            if kind == "PULSE" and int(f[0]) == u["echo"]:
                seg_echoes.append(int(f[3]))
            if kind == "SER":
                text = trace.unesc(f[0])
                if text == f"@U:{u['name']}":
                    waiting = True
                    seg_trigs = 0
                    seg_echoes = []
                elif waiting:
                    waiting = False
                    counts["us_calls"] += 1
                    if seg_trigs > 3 or seg_trigs < 1:
                        problems.append(("us-attempts", f"{u['name']}: {seg_trigs} trigger pulses in one measure_distance() call"))
                    if len(seg_echoes) != seg_trigs:
                        problems.append(("us-echo-count", f"{u['name']}: {seg_trigs} triggers but {len(seg_echoes)} pulseIn calls"))
                    good = next((e for e in seg_echoes if e > 0), None)
                    if good is not None:
                        want = f32(f32(float(good)) * f32(0.0343)) / 2.0
                        last_good = want
                        if seg_echoes.index(good) != len(seg_echoes) - 1:
                            problems.append(("us-extra-attempt", f"{u['name']}: kept triggering after a good echo {seg_echoes}"))
                    else:
                        want = last_good if last_good is not None else 400.0
                        if len(seg_echoes) != 3:
                            problems.append(("us-retry-count", f"{u['name']}: {len(seg_echoes)} attempts on timeouts, expected 3"))
                    try:
                        got = float(f[1]) if len(f) > 1 and f[1] != "-" else float(text)
                    except ValueError:
                        got = None
                    if got is None or abs(got - want) > 1e-4 * max(1.0, abs(want)):
                        problems.append(("us-value", f"{u['name']}: measure_distance() = {text}, expected {want:.4f} (echoes {seg_echoes})"))
        for a, b2 in zip(trig_times, trig_times[1:]):
            # "once the millisecond clock is running": a predecessor trigger stamped millis()==0 straight after reset is
            # excused by the property text; the same stamp at the 2^32 ms roll-over (event times are 64-bit) is not
            if a >= 1000 and (b2 - a) < 60000 - 1000:
                problems.append(("us-min-interval", f"{u['name']}: two trigger pulses {((b2 - a) / 1000):.3f} ms apart (at {a / 1000:.3f} ms and {b2 / 1000:.3f} ms)"))
                break
    return problems, counts


def run_case(case):
    idx, sd, passes, t0 = case
    rng = rng_for(PROP, sd, idx)
    script, tapes, info = gen(rng, passes)
    t = engine.transpile(script)
    out = {"script": script, "transpile": t["status"], "exc": t.get("exc"), "tapes": tapes}
    if t["status"] != "ok":
        return out
    out["cpp"] = t["cpp"]
    with fw.Scratch() as wd:
        b = fw.build(t["cpp"], wd)
        if not b["ok"]:
            out["fw_status"] = "uncompilable"
            out["diag"] = engine.first_diag_line(b["diag"])
            return out
        f = fw.run(b["binary"], wd, passes=passes, tapes=tapes, t0_ms=t0)
        out["fw_status"] = f["status"]
        if f["status"] != "ok":
            return out
        problems, counts = monitor(f["events"], info, passes)
        out["problems"] = problems[:8]
        out["counts"] = counts
        out["sample"] = [list(e) for e in f["events"] if e[1] in ("DR", "AR", "PULSE", "SER")][:14]
        # host replay (click counts / values) when every button signal starts released and the clock starts at 0
        if all(b2["sig"][0] == 0 for b2 in info["buttons"]) and t0 == 0 and not any(b2.get("loop_top") for b2 in info["buttons"]):
            py = engine.host_reference(script, wd, tapes=tapes, passes=passes)
            out["py_status"] = py["status"]
            if py["status"] == "ok":
                fm = trace.fw_model(f["events"], keep=("SER",))
                pm = trace.py_model(py["events"], keep=("SER",))
                d = trace.compare(fm, pm, timing=False, ignore_pass=True)
                out["host_divergence"] = d
                out["host_compared"] = len(pm)
    return out


def main() -> int:
    rep = Report(PROP)
    t = tier()
    sd = seed()
    n = 260 if t == "quick" else 2000
    passes = 12 if t == "quick" else 40
    # start values of the millisecond clock; the last two put the 32-bit roll-over (2^32 ms) a few tens of milliseconds ahead
    T0 = (0, 0, 1000, 5, 2 ** 32 - 30, 2 ** 32 - 130, 0, 2 ** 32 - 61)
    cases = [(i, sd, passes, T0[i % len(T0)]) for i in range(n)]
    for case, st, res in run_cases(run_case, cases):
        if st != "ok":
            rep.inconclusive_because(f"case {case} failed: {res[-300:]}")
            continue
        w = {"script.py": res["script"], "sketch.cpp": res.get("cpp") or "", "detail.json": json.dumps({k: res.get(k) for k in ("problems", "fw_status", "diag", "exc", "tapes", "host_divergence", "sample")}, indent=1, default=str)}
        if res["transpile"] != "ok":
            rep.case(None, False)
            rep.violation(f"documented sensor script not transpiled: {res['transpile']} {res.get('exc')}", w, key="transpile:" + str(res.get("exc"))[:40])
            continue
        if res["fw_status"] != "ok":
            rep.case(None, False)
            rep.violation(f"sensor firmware: {res['fw_status']} {res.get('diag')}", w, key="fw:" + res["fw_status"])
            continue
        c = res["counts"]
        rep.case(str(hash(res["script"])), sum(c.values()) > 0)
        for k, v in c.items():
            rep.count(k, v)
        for key, msg in res["problems"]:
            rep.violation(msg, w, key=key)
        if "host_divergence" in res:
            rep.count("host_replays")
            rep.count("host_events_compared", res.get("host_compared", 0))
            if res["host_divergence"]:
                d = res["host_divergence"]
                rep.violation(f"firmware serial output differs from the host Button/Potentiometer/Ultrasonic replay: fw={d['fw']} py={d['py']}", w, key="host-replay")
        elif res.get("py_status") not in (None, "ok"):
            rep.count("host_replay_" + str(res.get("py_status")))
        if len(rep.samples) < 3:
            rep.sample({"script": res["script"][-600:], "tapes": res["tapes"], "events": res["sample"]})
    if rep.counters.get("button_passes", 0) == 0 or rep.counters.get("pot_reads", 0) == 0 or rep.counters.get("us_calls", 0) == 0:
        rep.inconclusive_because("a sensor monitor was never reached: " + json.dumps({k: rep.counters.get(k, 0) for k in ("button_passes", "pot_reads", "us_calls")}))
    rep.rule = ("scripts with 0-2 buttons (with/without on_click), 0-1 potentiometer, 0-1 ultrasonic sensor, reads in setup() and 1-3 times per "
                "pass, sleeps of {0,1,30,59,60,61,200} ms between calls, clock starting at {0, 5, 1000} ms or just below the 32-bit roll-over (2^32 - {30, 61, 130} ms); input tapes: button levels (bursts, held, "
                "bouncing, pressed at start-up, idle), ADC values, echo times incl. 0 and > 30000; monitors count digitalRead per pass, on_click runs "
                "vs rising edges of the sampled signal, is_pressed() prints vs the sample, analogRead freshness and value, trigger pulses per call, "
                "trigger spacing, retry/fallback value; host Button/Pot/Ultrasonic replay on the same tapes when signals start released. "
                "non-trivial = at least one monitored pass/read/call")
    rep.assumptions = ["the 60 ms rule is judged between triggers whose predecessor happened after the first millisecond since reset (the property's 'once the millisecond clock is running'); roll-over instants are judged", "distance compared within 1e-4 relative (float32)", "unsigned long is 32 bits wide in sketch code (mock core, -DREDU_AVR_LONG): millis() wraps at 2^32"]
    return rep.finish(min_distinct=40)


if __name__ == "__main__":
    raise SystemExit(main())
