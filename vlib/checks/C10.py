"""C10 - transpilation is a deterministic, stateless function of the source text."""
from __future__ import annotations

import hashlib
import json
import os
import subprocess
import sys
import tempfile
import threading
from pathlib import Path

from ..common import PY, REPO_SRC, VERIF, Report, rng_for, seed, tier, use_repo
from ..gen import corpus

PROP = "C10"

CHILD = r"""
import sys, json, hashlib
sys.path.insert(0, sys.argv[2])
from Reduino.transpile.parser import parse
from Reduino.transpile.emitter import emit
import Reduino
assert Reduino.__file__.startswith(sys.argv[2]), Reduino.__file__
scripts = json.load(open(sys.argv[1]))
out = []
for s in scripts:
    try:
        p = parse(s)
        out.append(hashlib.sha256((emit(p) + "\0" + repr(p.target_port)).encode()).hexdigest())
    except Exception as e:
        out.append("EXC:" + type(e).__name__ + ":" + str(e)[:80])
print(json.dumps(out))
"""


def digest(s: str) -> str:
    from Reduino.transpile.emitter import emit
    from Reduino.transpile.parser import parse

    try:
        p = parse(s)
        first = emit(p)
        again = emit(p)  # emitting the same Program twice must give the same text
        if again != first:
            return "EMIT-TWICE-DIFFERS:" + hashlib.sha256(first.encode()).hexdigest()[:16]
        return hashlib.sha256((first + "\0" + repr(p.target_port)).encode()).hexdigest()
    except Exception as e:  # noqa: BLE001
        return "EXC:" + type(e).__name__ + ":" + str(e)[:80]


def interpreter_state():
    """Process-wide interpreter settings a transpilation has no business changing (and must restore if it touches them)."""
    import builtins
    import decimal
    import gc
    import locale
    import random
    import tempfile
    import threading
    import warnings

    return (sys.getrecursionlimit(), os.getcwd(), sys.getswitchinterval(), gc.isenabled(), tuple(sys.path), len(warnings.filters),
            decimal.getcontext().prec, locale.setlocale(locale.LC_ALL), threading.active_count(), sys.stdout is sys.__stdout__,
            sys.stderr is sys.__stderr__, hash(random.getstate()), tempfile.tempdir, sys.dont_write_bytecode, hasattr(sys, "tracebacklimit"),
            len(vars(builtins)), sys.getdefaultencoding(), sys.gettrace() is None, sys.getprofile() is None)


def module_state():
    """Deep fingerprint of the module-level state of the transpiler / toolchain modules: every container (deep repr), every
    plain value (numbers, strings, tuples - a rebound counter), and every other object whose repr shows its state rather
    than its address (itertools.count, compiled patterns)."""
    import types

    import Reduino
    import Reduino.toolchain.pio as pio
    import Reduino.transpile.ast as rast
    import Reduino.transpile.emitter as emitter
    import Reduino.transpile.parser as parser

    h = hashlib.sha256()
    n = 0
    skip_types = (types.ModuleType, type, types.FunctionType, types.BuiltinFunctionType, types.MethodType)
    for mod in (parser, emitter, rast, pio, Reduino):
        for name in sorted(vars(mod)):
            v = vars(mod)[name]
            # _VERIF_SKIPPED is the verification hook's own log (only written when REDUINO_VERIF=1)
            if name.startswith("__") or name.startswith("_VERIF"):
                continue
            if isinstance(v, types.FunctionType) or callable(v):
                # (functions - also memoised ones: a cache of a pure helper changes no output and is not judged here; a cache
                # that does change an output is caught by the digest comparisons)
                if not isinstance(v, (dict, list, set)):
                    continue
            if isinstance(v, skip_types):
                continue
            if isinstance(v, (dict, list, set)):
                n += 1
                h.update(name.encode())
                h.update(repr(sorted(v.items(), key=repr) if isinstance(v, dict) else sorted(v, key=repr)
                              if isinstance(v, set) else v).encode())
            else:
                r = repr(v)
                if " at 0x" in r:
                    continue
                n += 1
                h.update(name.encode())
                h.update(r.encode())
    h.update(repr(interpreter_state()).encode())
    return h.hexdigest(), n


def main() -> int:
    rep = Report(PROP)
    t = tier()
    sd = seed()
    use_repo()
    if t == "quick":
        scripts = corpus.mixed((PROP, sd), 30, 20, 10)
        hash_seeds = [0, 1, 2, 3, 5, 8, 13, 21]
    else:
        scripts = corpus.mixed((PROP, sd), 300, 200, 100)
        hash_seeds = list(range(32))
    rep.rule = ("corpus = generated core-language programs + scripts with 2-6 names first assigned in one "
                "if/elif/else/for/while/try body + multi-device scripts; sha256(emit(parse(s))) compared across "
                "PYTHONHASHSEED values (fresh processes), call histories, and 8 concurrently transpiling threads; "
                "module-level containers fingerprinted around every call. distinct = distinct output digests; "
                "non-trivial = script accepted (digest of real output, not an exception)")
    # (1) hash seeds
    with tempfile.TemporaryDirectory(prefix="reduverif-") as td:
        sp = Path(td) / "scripts.json"
        sp.write_text(json.dumps(scripts))
        procs = {}
        for n_env, hs in enumerate(hash_seeds):
            env = dict(os.environ)
            env["PYTHONHASHSEED"] = str(hs)
            # the output is a function of the source text only: vary the process environment too
            if n_env % 3 == 1:
                env.update({"HOME": "/nonexistent-home", "USER": "someone", "LANG": "C", "TZ": "UTC+7"})
            elif n_env % 3 == 2:
                env.pop("HOME", None)
                env.update({"LANG": "tr_TR.UTF-8", "LC_ALL": "C.UTF-8", "COLUMNS": "10"})
            procs[hs] = subprocess.Popen([PY, "-c", CHILD, str(sp), str(REPO_SRC)],
                                         stdout=subprocess.PIPE, stderr=subprocess.PIPE, text=True, env=env)
        results = {}
        for hs, p in procs.items():
            out, err = p.communicate(timeout=900)
            if p.returncode != 0:
                rep.inconclusive_because(f"child with PYTHONHASHSEED={hs} failed: {err[-300:]}")
                continue
            results[hs] = json.loads(out)
    base_seed = hash_seeds[0]
    base = results.get(base_seed)
    if base is None:
        rep.inconclusive_because("no baseline digests")
        return rep.finish()
    hs_hits = 0
    for i, s in enumerate(scripts):
        digs = {hs: r[i] for hs, r in results.items()}
        rep.case(base[i], not base[i].startswith("EXC:"))
        rep.count("digest_comparisons", len(digs))
        if len(set(digs.values())) > 1:
            hs_hits += 1
            groups = {}
            for hs, d in digs.items():
                groups.setdefault(d, []).append(hs)
            w = {"script.py": s, "detail.json": json.dumps({"digests_by_hashseed": groups}, indent=1)}
            rep.violation("output differs across PYTHONHASHSEED values "
                          f"({len(groups)} distinct outputs for one script)", w, key="hashseed")
    rep.count("scripts_hashseed_dependent", hs_hits)
    # (2) history independence + (4) module state, in this process (PYTHONHASHSEED=0 by default)
    mine = {}
    st0, ncont = module_state()
    rep.count("module_level_containers_watched", ncont)
    for i, s in enumerate(scripts):
        mine[i] = digest(s)
        if mine[i].startswith("EMIT-TWICE-DIFFERS"):
            rep.violation("emit() of the same Program object twice produced different text", {"script.py": s}, key="emit-twice")
        if module_state()[0] != st0:
            rep.violation("module-level state changed by a parse()/emit() call", {"script.py": s}, key="modstate")
            st0 = module_state()[0]
    rng = rng_for(PROP, sd, "history")
    order = list(range(len(scripts))) * 2
    rng.shuffle(order)
    for i in order:
        rep.count("history_replays")
        d = digest(scripts[i])
        if d != mine[i]:
            rep.violation("output depends on earlier parse()/emit() calls in the same process",
                          {"script.py": scripts[i]}, key="history")
    if os.environ.get("PYTHONHASHSEED", "0") == str(base_seed):
        for i in mine:
            if mine[i] != base[i]:
                rep.violation("in-process output differs from fresh-process output with the same hash seed",
                              {"script.py": scripts[i]}, key="fresh-vs-warm")
    # (5) each script alone in a fresh interpreter: the reference that no earlier transpilation can have influenced
    from concurrent.futures import ThreadPoolExecutor

    def solo(i):
        with tempfile.TemporaryDirectory(prefix="reduverif-") as td2:
            sp2 = Path(td2) / "one.json"
            sp2.write_text(json.dumps([scripts[i]]))
            env = dict(os.environ)
            env["PYTHONHASHSEED"] = str(base_seed)
            p = subprocess.run([PY, "-c", CHILD, str(sp2), str(REPO_SRC)], capture_output=True, text=True, env=env, timeout=300)
            if p.returncode != 0:
                return i, None, p.stderr[-200:]
            return i, json.loads(p.stdout)[0], ""

    with ThreadPoolExecutor(max_workers=min(16, os.cpu_count() or 4)) as ex:
        for i, d, err in ex.map(solo, range(len(scripts))):
            if d is None:
                rep.inconclusive_because(f"solo child for script {i} failed: {err}")
                continue
            rep.count("solo_fresh_process_runs")
            if d != base[i]:
                rep.violation("output of a script transpiled alone in a fresh process differs from its output after other scripts were "
                              "transpiled in the same process", {"script.py": scripts[i]}, key="solo-vs-sequence")
    # (3) threads
    old = sys.getswitchinterval()
    sys.setswitchinterval(1e-6)
    bad = []
    lock = threading.Lock()

    def worker(k):
        r = rng_for(PROP, sd, "thread", k)
        idx = list(range(len(scripts)))
        r.shuffle(idx)
        for i in idx[: max(10, len(idx) // 2)]:
            d = digest(scripts[i])
            with lock:
                rep.count("threaded_transpilations")
                if d != mine[i]:
                    bad.append(i)

    threads = [threading.Thread(target=worker, args=(k,)) for k in range(8)]
    for th in threads:
        th.start()
    for th in threads:
        th.join()
    sys.setswitchinterval(old)
    for i in sorted(set(bad)):
        rep.violation("output differs when other scripts are transpiled concurrently in threads",
                      {"script.py": scripts[i]}, key="threads")
    rep.sample({"script": scripts[-1][:1200], "digest": base[-1]})
    rep.sample({"script": scripts[len(scripts) // 2][:1200], "digest": base[len(scripts) // 2]})
    rep.extra["hash_seeds"] = hash_seeds
    rep.assumptions = ["thread interleavings are GIL switch points of pure-Python code (switch interval 1 us)"]
    return rep.finish(min_distinct=20)


if __name__ == "__main__":
    raise SystemExit(main())
