"""C01 - reject-or-preserve (core language): differential trace monitor, firmware vs CPython."""
from __future__ import annotations

import json
from pathlib import Path

from .. import engine, witness
from ..common import Report, run_cases, seed, tier
from ..gen import prog

PROP = "C01"

# hazard kind (dynamic monitor or generator feature) -> finding id
HAZARD_TO_FINDING = {
    "floordiv-neg": "KF-floordiv-trunc", "floordiv-float": "KF-floordiv-float", "mod-neg": "KF-mod-sign",
    "mod-float": "KF-mod-float", "truediv-int": "KF-truediv-int", "pow": "KF-pow",
    "andor-nonbool": "KF-andor-value", "continue": "KF-continue-dropped", "bool-to-text": "KF-bool-text",
    "minmax-abs-float": "KF-minmax-abs-int-typed",
}
FEATURE_TO_FINDING = {
    "hz:retype": "KF-retype", "hz:aug-widen": "KF-aug-widen", "hz:for-var-assign": "KF-for-var-assign",
    "hz:for-bound-expr": "KF-for-bound-reeval", "hz:first-assign-in-loop-branch": "KF-loop-branch-first-assign",
    "hz:list-mutate-nested": "KF-stale-len", "hz:list-str-append-literal": "KF-list-append-literal",
    "hz:list-float-append-literal": "KF-list-float-append-literal", "hz:stmt-call-types": "KF-stmt-call-types",
    "hz:param-retype": "KF-param-retype-in-body", "hz:list-local": "KF-list-local-leak", "hz:uncalled-helper": "KF-stmt-call-types",
    # expressions that also decide the DECLARED type of their target (int for int/int, bool for and/or, int for abs/min/max
    # of floats): the declaration is wrong even when the hazardous expression itself is never executed on this run
    "hz:truediv": "KF-truediv-int", "hz:andor": "KF-andor-value", "hz:abs-float": "KF-minmax-abs-int-typed", "hz:minmax-float": "KF-minmax-abs-int-typed",
    "hz:pow": "KF-pow",
}


def run_case(case):
    idx, profile, sd, passes = case
    p = prog.generate((PROP, sd, profile, idx), profile)
    r = engine.differential(p["source"], passes=passes, hazards=True)
    out = {k: r.get(k) for k in ("outcome", "exc", "diag", "divergence", "why", "san_reports", "fw_nevents",
                                 "fingerprint", "n_model_events", "fw_blocks", "fw_tail", "cpp")}
    out["hz"] = engine.hazards_before(r)
    out["source"] = p["source"]
    out["features"] = p["features"]
    out["gen_hazards"] = p["hazards"]
    out["passes"] = passes
    out["py_head"] = r.get("py_events", [])[:6]
    out["out_of_range"] = engine.outside_domain(r)
    return out


def witness_of(res):
    return {"script.py": res["source"], "sketch.cpp": res.get("cpp") or "",
            "detail.json": json.dumps({k: res.get(k) for k in ("outcome", "divergence", "why", "diag", "fw_tail",
                                                                "hz", "features", "passes", "san_reports")},
                                      indent=1, default=str)}


def judge(rep: Report, res: dict, *, clean: bool) -> None:
    o = res["outcome"]
    rep.count(("clean:" if clean else "hazard:") + o)
    for f in res["features"]:
        rep.count("feature:" + f)
    nontrivial = o == "equal" and (res.get("n_model_events") or 0) >= 5
    rep.case(res.get("fingerprint"), nontrivial)
    if o == "equal":
        rep.count("fw_events_observed", res.get("fw_nevents") or 0)
        rep.count("sketch_blocks_executed", res.get("fw_blocks") or 0)
        if len(rep.samples) < 3:
            rep.sample({"script": res["source"][:1500], "model_events": res.get("n_model_events"),
                        "reference_head": res["py_head"]})
        return
    if o in ("rejected", "internal", "transpile-timeout"):
        return  # rejecting is allowed by C01 (clean failure is C11's business)
    if o in ("py-undefined", "py-budget"):
        rep.count("discarded_not_well_defined")
        return
    if res.get("out_of_range"):
        # the program left the stated +-10^4 integer range (signed overflow seen by UBSan / huge values printed by CPython)
        rep.count("discarded_outside_integer_range")
        return
    if o == "inconclusive":
        rep.count("inconclusive_cases")
        return
    if o == "uncompilable" and clean:
        rep.count("uncompilable_reported_by_C06")
        return
    # diverged / fw-hang / fw-crash / uncompilable(hazard)
    if not clean:
        fids = [HAZARD_TO_FINDING[h] for h in res["hz"] if h in HAZARD_TO_FINDING]
        fids += [FEATURE_TO_FINDING[f] for f in res["features"] if f in FEATURE_TO_FINDING]
        fids = [f for f in fids if f in rep.open_findings]
        if fids:
            rep.known(fids[0], f"{rep.open_findings[fids[0]]['mechanism'][:100]} (hazard profile)")
            return
        if o == "uncompilable":
            rep.count("uncompilable_reported_by_C06")
            return
    what = {"diverged": "firmware trace differs from CPython", "fw-hang": "firmware does not terminate (CPython does)",
            "fw-crash": "firmware crashed", "uncompilable": "uncompilable"}.get(o, o)
    d = res.get("divergence") or {}
    rep.violation(f"{what}: {d.get('why', res.get('why', ''))} fw={d.get('fw')} py={d.get('py')}", witness_of(res),
                  key=f"{o}:{d.get('why', '')}:{d.get('fw', '')[:20]}:{res['source'][:0]}{len(rep.violations)}")


PROBE_CONTEXTS = json.loads((Path(__file__).resolve().parent.parent / "gen" / "probe_contexts.json").read_text())


def run_probe(case):
    name, ctx, src = case
    res = engine.differential(src, passes=2, hazards=False)
    out = {"outcome": res["outcome"], "divergence": res.get("divergence"), "exc": res.get("exc"), "cpp": res.get("cpp")}
    out["diag"] = engine.first_diag_line(res.get("diag") or "") if res.get("diag") else None
    return out


def main() -> int:
    rep = Report(PROP)
    t = tier()
    sd = seed()
    n_clean = 420 if t == "quick" else 3000
    n_hazard = 0 if t == "quick" else 1200
    cases = [(i, "clean", sd, (0, 1, 3)[i % 3] if t == "quick" else (0, 1, 3, 5)[i % 4]) for i in range(n_clean)]
    cases += [(i, "hazard", sd, 3) for i in range(n_hazard)]
    for case, st, res in run_cases(run_case, cases):
        if st != "ok":
            rep.count("harness_errors")
            rep.inconclusive_because(f"case {case} harness error: {res[-300:]}")
            continue
        judge(rep, res, clean=case[1] == "clean")
    # ---- feature probes: one everyday construct per script, in eight block contexts; rejected is fine, accepted must be preserved
    from ..gen import probes
    for case, st, res in run_cases(run_probe, probes.all_probes()):
        name, ctx, src = case
        if st != "ok":
            rep.inconclusive_because(f"probe {name}/{ctx} harness error: {res[-200:]}")
            continue
        o = res["outcome"]
        rep.count("probe:" + o)
        if o in ("rejected", "py-undefined", "py-budget", "inconclusive"):
            rep.case(None, False)
            continue
        rep.case(f"probe:{name}:{ctx}", o == "equal")
        if o == "equal":
            continue
        w = {"script.py": src, "sketch.cpp": res.get("cpp") or "", "detail.json": json.dumps({k: res.get(k) for k in ("outcome", "divergence", "diag", "exc")}, indent=1, default=str)}
        d = res.get("divergence") or {}
        msg = f"feature probe {name} ({ctx}): accepted but {o}: {d.get('why') or res.get('diag') or res.get('exc')} fw={d.get('fw')} py={d.get('py')}"
        fid = probes.PROBE_FINDINGS.get(name)
        # a finding explains a probe only in the block contexts where it was recorded (vlib/gen/probe_contexts.json, never written
        # at run time): the same construct failing in a NEW context is a different violation
        if fid and fid in rep.open_findings and ctx in PROBE_CONTEXTS.get(name, {}):
            rep.known(fid, msg, w)
        else:
            rep.violation(msg, w, key=f"probe:{name}:{o}")
    witness.check_witnesses(rep)
    rep.rule = ("seeded typed program generator over the documented subset (assign/swap/augassign, arithmetic, "
                "comparisons, boolean and conditional expressions, abs/min/max/len/int/float/str, f-strings, "
                "if/elif/else, while, for-range, break, helper functions, lists); each program is transpiled, "
                "compiled (ASan+UBSan, mock Arduino core) and run for N in {0,1,3[,5]} loop() passes, and run in "
                "CPython against the instrumented host modules; traces (serial lines, delays, pin levels, pass "
                "boundaries) compared event by event. distinct = distinct firmware trace fingerprints; "
                "non-trivial = traces equal AND >= 5 compared events")
    rep.assumptions = [
        "mock Arduino core (vlib/mockcore) models the AVR core's String/Print/macros faithfully",
        "ints stay within +-10^4 so 16-bit int on AVR and 32-bit int on the host agree",
        "numbers in text compare within float32 / 2-decimal print tolerance; bool text is not normalised",
        "operands of one C++ expression are free of side effects (unspecified evaluation order is not judged)",
    ]
    discards = rep.counters.get("discarded_not_well_defined", 0)
    if discards > 0.2 * max(1, rep.evaluations):
        rep.inconclusive_because(f"{discards} of {rep.evaluations} generated programs were not well-defined in CPython")
    return rep.finish(min_distinct=100 if t == "quick" else 400)


if __name__ == "__main__":
    raise SystemExit(main())
