"""C20 - host sensor, Core-pin, timing and serial helpers are faithful small models
(reference-model monitors run in lock-step with the real functions)."""
from __future__ import annotations

import json
import math
import sys
from fractions import Fraction

from ..common import Report, rng_for, run_cases, seed, tier, use_repo

PROP = "C20"


def norm(pin):
    if isinstance(pin, str) and pin.isdigit():
        return int(pin)
    return pin


class CoreModel:
    """15-line memory model of the pin simulation."""

    def __init__(self):
        self.mode, self.dig, self.ana = {}, {}, {}

    def pin_mode(self, p, m):
        p = norm(p)
        self.mode[p] = m
        if m == "INPUT_PULLUP" and p not in self.dig:
            self.dig[p] = 1

    def digital_write(self, p, v):
        self.dig[norm(p)] = 1 if v else 0

    def analog_write(self, p, v):
        self.ana[norm(p)] = max(0, min(255, int(round(float(v)))))

    def digital_read(self, p):
        p = norm(p)
        return self.dig.get(p, 1 if self.mode.get(p) == "INPUT_PULLUP" else 0)

    def analog_read(self, p):
        return self.ana.get(norm(p), 0)


# Two pin families, one per history: the statement does not say whether the analogue-style name "A0" and the integer an Uno
# maps it to (14) are one pin or two, so no history uses both an "A<n>" name and an integer in 14..21.
PINS_A = [7, "7", 8, "08", "A0", 0, "0", 13, "13", "A1", 1, "A3", "A5", "A7", "LED", 255, "255"]
PINS_N = [7, "7", 8, "08", 0, "0", 13, "13", 1, 14, "14", 15, 17, "17", 19, 21, "LED", 22, 255]


def core_history(case):
    sd, idx, n = case
    use_repo()
    import Reduino.Core as C

    r = rng_for(PROP, sd, "core", idx)
    C._pin_modes.clear()
    C._digital_values.clear()
    C._analog_values.clear()
    if C._pin_modes or C._digital_values or C._analog_values:
        return {"problems": [("reset", "could not clear Core state")], "ops": 0, "log": []}
    m = CoreModel()
    problems = []
    log = []
    PINS = PINS_A if idx % 2 == 0 else PINS_N
    ISOLATION_PROBES = sorted({norm(p) for p in PINS}, key=repr)
    for k in range(n):
        op = r.choice(["pin_mode", "digital_write", "analog_write", "digital_read", "digital_read", "analog_read", "analog_read"])
        p = r.choice(PINS)
        if op == "pin_mode":
            mode = r.choice([C.INPUT, C.OUTPUT, C.INPUT_PULLUP])
            C.pin_mode(p, mode)
            m.pin_mode(p, mode)
            log.append(f"pin_mode({p!r}, {mode})")
        elif op == "digital_write":
            v = r.choice([0, 1, True, False, C.HIGH, C.LOW, 5, -1])
            C.digital_write(p, v)
            m.digital_write(p, v)
            log.append(f"digital_write({p!r}, {v!r})")
        elif op == "analog_write":
            v = r.choice([0, 1, 127, 128, 255, 256, -1, 300, 0.4, 0.5, 1.5, 2.5, 254.5, 254.6, 1000.0, True])
            C.analog_write(p, v)
            m.analog_write(p, v)
            log.append(f"analog_write({p!r}, {v!r})")
        elif op == "digital_read":
            got, want = C.digital_read(p), m.digital_read(p)
            log.append(f"digital_read({p!r}) -> {got!r}")
            if got != want or got not in (0, 1):
                problems.append(("digital_read", f"digital_read({p!r}) = {got!r}, memory model says {want!r}", list(log[-12:])))
        else:
            got, want = C.analog_read(p), m.analog_read(p)
            log.append(f"analog_read({p!r}) -> {got!r}")
            if got != want or not (0 <= got <= 255):
                problems.append(("analog_read", f"analog_read({p!r}) = {got!r}, memory model says {want!r}", list(log[-12:])))
        # isolation: every other pin still reads what the model says
        if k % 5 == 0:
            for q in ISOLATION_PROBES:
                if C.digital_read(q) != m.digital_read(q) or C.analog_read(q) != m.analog_read(q):
                    problems.append(("isolation", f"after {log[-1]}: pin {q!r} reads d={C.digital_read(q)} a={C.analog_read(q)}, model d={m.digital_read(q)} a={m.analog_read(q)}", list(log[-12:])))
                    break
    return {"problems": problems[:4], "ops": n, "log": log[:10]}


def ulps(a: float, b: float) -> float:
    if a == b:
        return 0.0
    if math.isnan(a) or math.isnan(b) or math.isinf(a) or math.isinf(b):
        return math.inf
    return abs(a - b) / max(math.ulp(a), math.ulp(b))


def utils_batch(case):
    sd, idx, n = case
    use_repo()
    import Reduino.Utils as U

    r = rng_for(PROP, sd, "utils", idx)
    problems = []
    checked = 0
    samples = []
    grid = [0, 1, -1, 2, 5, 10, 100, 255, 1023, 1024, 0.5, -0.5, 3.3, 5.0, 1e-3, 1e6, -1e6]
    for _ in range(n):
        mode = r.random()
        if mode < 0.08:
            # a narrow source range far from zero (epoch milliseconds, large counters) is still a range
            a = r.choice([1_700_000_000_000, 2 ** 40, 1e15, -3e12, 16_777_216.0])
            b = a + r.choice([500, 4, 1, -250, 0.5, 1024])
            v = a + (b - a) * r.choice([0, 1, 0.5, 0.25, 2])
            c, d = r.choice(grid), r.choice(grid)
        elif mode < 0.5:
            v, a, b, c, d = (r.choice(grid) for _ in range(5))
        elif mode < 0.8:
            v, a, b, c, d = (r.uniform(-1000, 1000) for _ in range(5))
        else:
            v, a, b, c, d = (r.randint(-1023, 1023) for _ in range(5))
        if a == b:
            try:
                U.map(v, a, b, c, d)
                problems.append(("map-zero-span", f"map({v}, {a}, {b}, {c}, {d}) accepted a zero-width source range"))
            except ValueError:
                pass
            except Exception as e:  # noqa: BLE001
                problems.append(("map-zero-span", f"map with zero-width source range raised {type(e).__name__}, not ValueError"))
            checked += 1
            continue
        try:
            got = U.map(v, a, b, c, d)
        except Exception as e:  # noqa: BLE001
            problems.append(("map-refused", f"map({v}, {a}, {b}, {c}, {d}) raised {type(e).__name__}: {e} for a source range that is not zero-width"))
            checked += 1
            continue
        exact = Fraction(c) + (Fraction(v) - Fraction(a)) / (Fraction(b) - Fraction(a)) * (Fraction(d) - Fraction(c))
        want = float(exact)
        checked += 1
        # exact affine map: allow 4 ulp of float evaluation error scaled by the magnitudes involved
        scale = max(abs(want), abs(float(c)), abs(float(d)), abs(float(d) - float(c)) * abs(float(Fraction(v) - Fraction(a)) / float(Fraction(b) - Fraction(a))), 1e-300)
        if abs(got - want) > 4 * math.ulp(scale) + 4 * math.ulp(scale) * 0:
            if abs(got - want) > 8 * math.ulp(scale):
                problems.append(("map-affine", f"map({v}, {a}, {b}, {c}, {d}) = {got!r}, exact affine map gives {want!r}"))
        if len(samples) < 2:
            samples.append(f"map({v}, {a}, {b}, {c}, {d}) = {got!r} (exact {want!r})")
        # endpoints
        if float(a) + (float(b) - float(a)) != float(b):
            continue   # (the endpoints themselves are not exactly representable next to each other: no exact endpoint law)
        if U.map(a, a, b, c, d) != c:
            problems.append(("map-endpoint", f"map(from_low) = {U.map(a, a, b, c, d)!r} != to_low {c!r}"))
    # sleep
    for _ in range(max(10, n // 10)):
        ms = r.choice([0, 1, 250, 0.5, 1e-3, 1e6, 999.999, True, -1, -0.001, -1e9, 0.0004, 1.2345678, 1e-7, -0.0004, -1e-9, 33.333333333])
        calls = []
        try:
            U.sleep(ms, sleep_func=lambda s: calls.append(s))
            ok = True
        except ValueError:
            ok = False
        checked += 1
        if ms < 0:
            if ok or calls:
                problems.append(("sleep-negative", f"sleep({ms}) accepted a negative duration (calls={calls})"))
        else:
            if not ok or len(calls) != 1 or calls[0] != float(ms) / 1000.0:
                problems.append(("sleep", f"sleep({ms!r}) -> sleep_func calls {calls}, expected exactly [{float(ms) / 1000.0}]"))
        # a call WITHOUT sleep_func right after an injected one waits on the real clock (time.sleep), not on the earlier callable
        import time as _time
        real, seen = _time.sleep, []
        _time.sleep = lambda sec: seen.append(sec)
        try:
            n_before = len(calls)
            U.sleep(2)
        finally:
            _time.sleep = real
        if seen != [0.002] or len(calls) != n_before:
            problems.append(("sleep-default-clock", f"sleep(2) after a call with an injected sleep_func: time.sleep calls {seen}, the earlier callable got {calls[n_before:]}"))
    return {"problems": problems[:4], "ops": checked, "log": samples}


class FakeSerialPort:
    def __init__(self, **kw):
        self.kw = kw
        self.is_open = True
        self.written = []
        self.lines = []

    def write(self, b):
        self.written.append(b)
        return len(b)

    def readline(self):
        return self.lines.pop(0) if self.lines else b""

    def close(self):
        self.is_open = False


class FakeSerialModule:
    def __init__(self):
        self.ports = []

    def Serial(self, **kw):
        p = FakeSerialPort(**kw)
        self.ports.append(p)
        return p


class Weird:
    def __format__(self, spec):
        return "weird-format"

    def __str__(self):
        return "weird-str"


def sensors_batch(case):
    sd, idx, n = case
    use_repo()
    import Reduino.Communication as Comm
    from Reduino.Sensors import Button, Potentiometer, Ultrasonic

    SerM = sys.modules["Reduino.Communication.SerialMonitor"]
    r = rng_for(PROP, sd, "sens", idx)
    problems = []
    ops = 0
    log = []
    for _ in range(n):
        which = r.random()
        if which < 0.35:
            # Button: clicks == rising edges of the provider sequence (initial level released)
            seq = [r.random() < r.choice([0.2, 0.5, 0.8]) for _ in range(r.randint(1, 30))]
            vals = [r.choice([True, 1, "x", 2.5]) if s else r.choice([False, 0, "", None, 0.0]) for s in seq]
            it = iter(vals)
            clicks = []
            b = Button(r.choice([2, 7]), on_click=lambda: clicks.append(1), state_provider=lambda: next(it))
            outs = [b.is_pressed() for _ in vals]
            ops += len(vals)
            edges = sum(1 for i, s in enumerate(seq) if s and (i == 0 or not seq[i - 1]))
            if len(clicks) != edges:
                problems.append(("button-edges", f"Button fired {len(clicks)} clicks for {edges} rising edges of {seq}"))
            if outs != [1 if s else 0 for s in seq]:
                problems.append(("button-value", f"is_pressed() returned {outs} for {seq}"))
            # set_pressed path
            b2 = Button(3, on_click=lambda: clicks.append(2))
            clicks.clear()
            e2 = 0
            prev = False
            for s in seq:
                b2.set_pressed(s)
                b2.is_pressed()
                if s and not prev:
                    e2 += 1
                prev = s
            if clicks.count(2) != e2:
                problems.append(("button-edges", f"Button(set_pressed) fired {clicks.count(2)} clicks for {e2} rising edges"))
            # set_pressed may be called any number of times between two polls: only the level SAMPLED by is_pressed() counts
            b3 = Button(4, on_click=lambda: clicks.append(3))
            clicks.clear()
            e3, prev3, level, hist = 0, False, False, []
            for _ in range(r.randint(4, 14)):
                if r.random() < 0.6:
                    level = r.random() < 0.5
                    b3.set_pressed(level)
                    hist.append(int(level))
                else:
                    got3 = b3.is_pressed()
                    hist.append("P")
                    if got3 != (1 if level else 0):
                        problems.append(("button-value", f"is_pressed() returned {got3} after history {hist}"))
                    if level and not prev3:
                        e3 += 1
                    prev3 = level
            if clicks.count(3) != e3:
                problems.append(("button-edges", f"Button(set_pressed) fired {clicks.count(3)} clicks for {e3} rising edges of the sampled level in history {hist}"))
            if len(log) < 2:
                log.append(f"button seq={seq[:8]} clicks={edges}")
        elif which < 0.6:
            v = r.choice([0, 1, 512, 1023, 1024, -1, 5000, 1022.9, 0.9, True, "17", -0.5, 1023.5])
            p = Potentiometer(r.choice(["A0", "A3", " A1 "]), value_provider=lambda: v)
            ops += 1
            try:
                got = p.read()
                iv = int(v)
                if not (0 <= iv <= 1023) or got != iv or isinstance(got, bool) or not isinstance(got, int):
                    problems.append(("pot", f"Potentiometer.read() returned {got!r} for provider value {v!r}"))
            except ValueError:
                if 0 <= int(v) <= 1023:
                    problems.append(("pot", f"Potentiometer.read() raised for in-range provider value {v!r}"))
            if Potentiometer("A2").read() != 0:
                problems.append(("pot-default", "Potentiometer without provider does not read 0"))
        elif which < 0.8:
            v = r.choice([0, 0.0, 1, 12.5, 400, 1e6, -0.001, -1, -1e9, True, "3.5"])
            u = Ultrasonic(r.choice([2, 9]), r.choice([3, 10]), distance_provider=lambda: v, default_distance=r.choice([0.0, 7.5]))
            ops += 1
            try:
                got = u.measure_distance()
                if float(v) < 0 or got != float(v) or not isinstance(got, float):
                    problems.append(("ultrasonic", f"measure_distance() returned {got!r} for provider value {v!r}"))
            except ValueError:
                if float(v) >= 0:
                    problems.append(("ultrasonic", f"measure_distance() raised for non-negative provider value {v!r}"))
            dd = r.choice([0.0, 3.25, 400])
            if Ultrasonic(2, 3, default_distance=dd).measure_distance() != float(dd):
                problems.append(("ultrasonic-default", f"default distance {dd} not returned"))
        else:
            fake = FakeSerialModule()
            saved = getattr(Comm, "serial", None)
            Comm.serial = fake
            try:
                nl = r.choice(["\n", "\n", "\r\n", "", ";", "\n\n"])
                mon = SerM.SerialMonitor(r.choice([9600, 115200, 1]), port=r.choice(["COM4", "/dev/ttyUSB0"]), **({"newline": nl} if nl != "\n" or r.random() < 0.3 else {}))
                vals = [r.choice(["hello", "", "ünï ✓ 端", 0, -5, 3.14, 1e20, True, None, Weird(), [1, 2], "a\nb", 0.1 + 0.2, b"x", "done\n", "\n", "x\r\n", "tail ", " lead", "\t"])
                        for _ in range(r.randint(1, 6))]
                # values that compare (and hash) equal but print differently, one after the other
                vals += r.choice([[1, True, 1.0], [0, False, 0.0, -0.0], [2, 2.0], ["1", 1], [True, 1]])
                for v in vals:
                    if r.random() < 0.15:
                        # the line ending is a public attribute: a write uses the value it has at that moment
                        nl = r.choice(["\n", "\r\n", "", "|"])
                        mon.newline = nl
                    ret = mon.write(v)
                    ops += 1
                    want = str(v)
                    port = fake.ports[-1]
                    if ret != want or not port.written or port.written[-1] != (want + nl).encode("utf-8"):
                        problems.append(("serial-write", f"write({v!r}) returned {ret!r} and sent {port.written[-1:]!r}; expected {want!r} + newline {nl!r}"))
                if len(port.written) != len(vals):
                    problems.append(("serial-write-count", f"{len(vals)} writes produced {len(fake.ports[-1].written)} payloads"))
                mon.close()
                if fake.ports[-1].is_open:
                    problems.append(("serial-close", "close() left the port open"))
                # connection life cycle: every port receives exactly the writes made while it was the open one, in order, nothing else
                m3 = SerM.SerialMonitor(9600, newline=r.choice(["\n", "\r\n"]))
                n_before = len(fake.ports)
                expect = {}            # port index -> list of payloads
                cur = None
                for step in range(r.randint(3, 10)):
                    act = r.choice(["write", "write", "write", "connect", "close"])
                    if act == "connect":
                        m3.connect(r.choice(["COM9", "/dev/ttyACM1"]))
                        cur = len(fake.ports) - 1
                        expect.setdefault(cur, [])
                    elif act == "close":
                        m3.close()
                        cur = None
                    else:
                        v = r.choice(["early", 42, "", "x y", 3.5])
                        ret = m3.write(v)
                        ops += 1
                        if ret != str(v):
                            problems.append(("serial-write", f"write({v!r}) returned {ret!r}"))
                        if cur is not None:
                            expect[cur].append((str(v) + m3.newline).encode("utf-8"))
                for pi, want_payloads in expect.items():
                    if fake.ports[pi].written != want_payloads:
                        problems.append(("serial-lifecycle", f"a port opened by connect() received {fake.ports[pi].written!r}; the writes made while it was open were {want_payloads!r}"))
                if len(fake.ports) - n_before != len(expect):
                    problems.append(("serial-lifecycle", f"{len(fake.ports) - n_before} ports opened for {len(expect)} connect() calls"))
                # unconnected monitor: write returns the text and sends nothing
                m2 = SerM.SerialMonitor(9600)
                if m2.write(12) != "12":
                    problems.append(("serial-write", "unconnected write(12) did not return '12'"))
            finally:
                Comm.serial = saved
    return {"problems": problems[:4], "ops": ops, "log": log}


def dispatch(case):
    kind = case[0]
    return {"core": core_history, "utils": utils_batch, "sens": sensors_batch}[kind](case[1:])


def main() -> int:
    rep = Report(PROP)
    t = tier()
    sd = seed()
    scale = 4 if t == "quick" else 60
    cases = [("core", sd, i, 120) for i in range(80 * scale)]
    cases += [("utils", sd, i, 300) for i in range(32 * scale)]
    cases += [("sens", sd, i, 60) for i in range(48 * scale)]
    for case, st, out in run_cases(dispatch, cases):
        if st != "ok":
            rep.violation(f"{case[0]} monitor crashed: {out[-400:]}", key="crash:" + case[0])
            continue
        rep.case(f"{case[0]}:{case[2]}", out["ops"] > 0)
        rep.count("operations:" + case[0], out["ops"])
        for p in out["problems"]:
            key, msg = p[0], p[1]
            rep.violation(msg, {"detail.json": json.dumps({"case": case, "context": p[2] if len(p) > 2 else None}, indent=1, default=str)},
                          key=f"{case[0]}:{key}")
        if len(rep.samples) < 5 and out["log"] and case[2] % 17 == 0:
            rep.sample({"monitor": case[0], "observed": out["log"]})
    rep.rule = ("random interleavings of the five Core calls over int/str pin names against a dict memory model (plus isolation "
                "sweeps of the other pins); Utils.map against the exact rational affine map (8 ulp) and zero-span refusal; sleep with an "
                "injected sleep_func; Button/Potentiometer/Ultrasonic provider sequences incl. out-of-range values; SerialMonitor.write "
                "against a fake serial backend. distinct = distinct histories/batches; non-trivial = >= 1 compared operation")
    rep.assumptions = ["Core state is module-global: each history clears the three dicts first (clearing is asserted)"]
    return rep.finish(min_distinct=50)


if __name__ == "__main__":
    raise SystemExit(main())
