"""C02 - type inference is sound: no value is narrowed or re-typed on the device.
Differential traces + type-witness monitor (Python types seen per name by a tracer vs C++ declarations emitted)."""
from __future__ import annotations

import json
import re

from .. import engine, witness
from ..common import Report, run_cases, seed, tier
from ..gen import prog

PROP = "C02"

HAZARD_TO_FINDING = {"truediv-int": "KF-truediv-int", "minmax-abs-float": "KF-minmax-abs-int-typed", "andor-nonbool": "KF-andor-value"}
FEATURE_TO_FINDING = {"hz:retype": "KF-retype", "hz:aug-widen": "KF-aug-widen"}
GENHZ_TO_FINDING = {"param-retype": "KF-param-retype-in-body", "stmt-call-types": "KF-stmt-call-narrow", "retype": "KF-retype",
                    "truediv": "KF-truediv-int", "minmax-abs-float": "KF-minmax-abs-int-typed"}

DECL_RE = re.compile(r"^(\s*)(int|float|bool|String|__redu_list<(?:int|float|bool|String)>)\s+([A-Za-z_]\w*)\s*=", re.M)
FUNC_RE = re.compile(r"^(void|int|float|bool|String|__redu_list<\w+>)\s+([A-Za-z_]\w*)\s*\(([^)]*)\)\s*\{", re.M)


def c_declarations(cpp: str):
    """-> globals {name: ctype}, functions {fname: [{"ret":..., "params": {p: t}, "locals": {n: t}}]}, setup/loop locals {name: set(ctype)}"""
    funcs = {}
    glob = {}
    main_locals = {}
    pos = 0
    spans = []
    for m in FUNC_RE.finditer(cpp):
        # function body: up to the matching "\n}\n"
        end = cpp.find("\n}\n", m.end())
        end = len(cpp) if end < 0 else end
        spans.append((m.start(), end, m))
    for m in DECL_RE.finditer(cpp):
        owner = next((s for s in spans if s[0] <= m.start() < s[1]), None)
        ctype, name = m.group(2), m.group(3)
        if name.startswith("__"):
            continue
        if owner is None:
            glob[name] = ctype
        else:
            fname = owner[2].group(2)
            if fname in ("setup", "loop"):
                main_locals.setdefault(name, set()).add(ctype)
            else:
                pass
    for s0, s1, m in spans:
        fname = m.group(2)
        if fname in ("setup", "loop") or fname.startswith("__redu"):
            continue
        params = {}
        for part in [p.strip() for p in m.group(3).split(",") if p.strip()]:
            bits = part.rsplit(" ", 1)
            if len(bits) == 2:
                params[bits[1]] = bits[0]
        loc = {}
        for d in DECL_RE.finditer(cpp, s0, s1):
            if not d.group(3).startswith("__"):
                loc.setdefault(d.group(3), set()).add(d.group(2))
        funcs.setdefault(fname, []).append({"ret": m.group(1), "params": params, "locals": loc})
    return glob, funcs, main_locals


def holds(py_types: set, ctype: str) -> bool:
    """Can a C variable of `ctype` hold every Python value type in py_types without loss?"""
    if ctype.startswith("__redu_list<"):
        elem = ctype[len("__redu_list<"):-1]
        inner = set()
        for t in py_types:
            if not t.startswith("list["):
                return False
            inner.update(x for x in t[5:-1].split("|") if x != "empty")
        return holds(inner, elem) if inner else True
    if any(t.startswith("list[") for t in py_types):
        return False
    if "str" in py_types:
        return ctype == "String" and py_types <= {"str"}
    if ctype == "String":
        return py_types <= {"str"}
    if "float" in py_types:
        return ctype == "float"
    if "int" in py_types:
        return ctype in ("int", "float")
    return ctype in ("bool", "int", "float")  # bool only


def type_witness(types: dict, cpp: str):
    glob, funcs, main_locals = c_declarations(cpp)
    problems = []
    checked = 0
    for key, tlist in types.items():
        scope, name = key.split(":", 1)
        tset = set(tlist)
        if name.startswith("__") or not tset:
            continue
        if scope == "<module>":
            ctypes = set()
            if name in glob:
                ctypes.add(glob[name])
            ctypes |= main_locals.get(name, set())
            for ct in ctypes:
                checked += 1
                if not holds(tset, ct):
                    problems.append((f"{name}", f"variable `{name}` held {sorted(tset)} in CPython but is declared `{ct}`"))
        else:
            variants = funcs.get(scope)
            if not variants:
                continue
            if name == "<return>":
                rts = {v["ret"] for v in variants}
                checked += 1
                vals = tset - {"None"}
                if vals and not any(holds({t}, rt) for t in vals for rt in rts if rt != "void"):
                    problems.append((f"{scope}()", f"function `{scope}` returned {sorted(vals)} in CPython but is declared to return {sorted(rts)}"))
                else:
                    for t in vals:
                        if not any(holds({t}, rt) for rt in rts if rt != "void"):
                            problems.append((f"{scope}()", f"function `{scope}` returned a {t} in CPython; declared return types {sorted(rts)}"))
                continue
            for t in tset:
                cts = set()
                for v in variants:
                    if name in v["params"]:
                        cts.add(v["params"][name])
                    cts |= v["locals"].get(name, set())
                if not cts:
                    continue
                checked += 1
                if not any(holds({t}, ct) for ct in cts):
                    problems.append((f"{scope}.{name}", f"`{name}` in `{scope}` held a {t} in CPython but is declared {sorted(cts)}"))
    return problems, checked


POLY_HDR = """from Reduino import target
target("COM3")
from Reduino.Communication import SerialMonitor
mon = SerialMonitor(9600)
"""


def poly_program(rng):
    """Helpers called at several sites with different argument types (int / float / str variables, never float literals:
    a double literal passed to an overloaded helper is ambiguous in C++ - that is C06's business)."""
    L = POLY_HDR.splitlines()
    L += ["iv = %d" % rng.randint(1, 9), "fv = %s" % rng.choice(["2.5", "0.75", "10.25"]), "sv = \"%s\"" % rng.choice(["ab", "x", "hello"]),
          "iw = %d" % rng.randint(2, 7), "fw2 = %s" % rng.choice(["1.5", "4.25"])]
    bodies = [
        ("scale", ["v"], ["    return v * 2"], ["num"]),
        ("mix", ["a", "b"], ["    t = a + b", "    return t"], ["num", "num"]),
        ("pick", ["a", "b"], ["    if a > b:", "        return a", "    return b"], ["num", "num"]),
        ("half", ["v"], ["    h = v / 2.0", "    return h"], ["num"]),
        ("twice", ["s"], ["    return s + s"], ["any"]),
        ("ident", ["q"], ["    r = q", "    return r"], ["any"]),
        ("accum", ["v", "n"], ["    total = v", "    for k in range(n):", "        total = total + v", "    return total"], ["num", "int"]),
        # return-type joins: the sentinel path is never taken at run time (arguments are positive) but decides the declared type
        ("reading", ["v"], ["    if v < 0:", "        return False", "    return v * 1.5"], ["num"]),
        ("level", ["v"], ["    if v < 0:", "        return 0", "    return v / 4.0"], ["num"]),
        ("flagged", ["v"], ["    if v < 0:", "        return True", "    return v + 2"], ["int"]),
        ("halve", ["a"], ["    a = a * 0.5", "    return a"], ["int"]),
        ("bump", ["level"], ["    level += 0.25", "    return level"], ["int"]),
        ("localt", ["a"], ["    tshared = a * 0.5", "    return tshared"], ["int"]),
        ("looponly", ["n"], ["    for k in range(n):", "        mon.write(k)", "    return n"], ["int"]),
        # the whole body is one compound statement (arguments are positive, so a value is always returned)
        ("onlyif", ["v"], ["    if v > 0:", "        w = v * 2", "        return w"], ["num"]),
        ("onlyloop", ["v"], ["    while v > 0:", "        w = v + v", "        mon.write(w)", "        return w"], ["num"]),
        # annotations are not enforced by Python: the call-site value decides what the parameter holds
        ("ascale", ["x: int", "k"], ["    return x * k"], ["num", "int"]),
        ("apick", ["flag: bool", "v: float"], ["    if flag:", "        return v", "    return v + 1"], ["int", "int"]),
        ("alabel", ["s: str"], ["    return s + s"], ["any"]),
        ("clampf", ["v"], ["    if v > 1000:", "        return 1000", "    if v < 0:", "        return False", "    return v * 0.5"], ["num"]),
    ]
    chosen = rng.sample(bodies, rng.randint(1, 3))
    for name, params, body, kinds in chosen:
        L.append(f"def {name}({', '.join(params)}):")
        L += body
        L.append("")
    order = []
    for name, params, body, kinds in chosen:
        variants = []
        pools = {"num": ["iv", "fv", "iw", "fw2", "3"], "int": ["iw", "2", "3"], "any": ["iv", "fv", "sv"]}
        if name == "twice":
            pools["any"] = ["iv", "fv", "sv"]
        for _ in range(rng.randint(2, 4)):
            args = [rng.choice(pools[k]) for k in kinds]
            variants.append(args)
        for args in variants:
            order.append(f"r{len(order)} = {name}({', '.join(args)})")
            order.append(f"mon.write(r{len(order) - 1 if False else len(order) // 2})") if False else None
    # emit calls + prints (result names are unique)
    if rng.random() < 0.5:
        # a parallel assignment reads the OLD values on its right-hand side: a float name re-bound to a whole number in an
        # earlier position still hands its old (fractional) value to a later target
        L += ["lv = 2.5", "lv, prevv = 3, lv", "mon.write(prevv)", "gain = 0.75", "lo2 = 4", "gain, lo2, oldg = lo2, 0, gain", "mon.write(oldg)"]
        # (the same statement on a PARAMETER re-types the parameter itself: known finding KF-param-retype-in-body, not generated)
    if rng.random() < 0.4:
        # a comprehension variable that shadows a typed outer name must not change that name's type afterwards
        L += ["kq = 0.5", "xs = [kq * 2 for kq in range(3)]", "zq = kq + 1", "mon.write(zq)", "mon.write(xs[2])"]
    if rng.random() < 0.4:
        # two helpers (and top-level code) use the SAME local name with different types, first assigned in if/else arms in one
        # and inside a loop body in the other: every scope has its own declaration
        nm = rng.choice(["tloc", "acc", "val"])
        if rng.random() < 0.6:
            # ... also after the top level itself has hoisted a name out of an if/else (the hoisting tables then exist at the root)
            L += ["if iv > 100:", "    top0 = 1", "else:", "    top0 = 2", "mon.write(top0)"]
        strs = rng.random() < 0.5
        if strs:
            L += [f"def sarms_{nm}(v):", "    if v > 100:", f"        {nm} = \"hi\"", "    else:", f"        {nm} = \"lo\"", f"    return {nm}", "", f"qs = sarms_{nm}(iv)", "mon.write(qs)"]
        L += [f"def arms_{nm}(v):", "    if v > 100:", f"        {nm} = 1", "    else:", f"        {nm} = 2", f"    return {nm}", "",
              f"def loop_{nm}(n):", "    for k in range(n):", f"        {nm} = k * 0.5", f"    return {nm}", "",
              f"def wloop_{nm}(n):", "    w = n", "    while w > 0:", "        w -= 1", f"        {nm} = \"s\" + str(w)", f"    return {nm}", ""]
        calls = [f"qa = arms_{nm}(iv)", "mon.write(qa)", f"qb = loop_{nm}(iw)", "mon.write(qb)", f"qc = wloop_{nm}(2)", "mon.write(qc)"]
        if rng.random() < 0.5:
            calls = calls[2:4] + calls[0:2] + calls[4:]
        L += calls
    if rng.random() < 0.5:
        # a helper whose only fractional call sits inside str(); a recursive helper whose branch-local is read after the recursive
        # call; a loop-local that starts whole and is widened in the same body; a choice whose (never taken) first arm is a truth value
        L += ["def dbl(v):", "    return v * 2", "", "def walk(n):", "    if n > 0:", "        d = n * 2", "        r = walk(n - 1)", "        mon.write(d)", "    return n", ""]
        extra = [["lab = str(dbl(fv))", "mon.write(lab)", "lab2 = str(dbl(iw))", "mon.write(lab2)"], ["qw = walk(3)", "mon.write(qw)"],
                 ["for kl in range(3):", "    lvl = kl", "    lvl = lvl + 0.5", "    mon.write(lvl)"],
                 ["wl = 2", "while wl > 0:", "    wl -= 1", "    acc2 = wl", "    acc2 += 0.25", "    mon.write(acc2)"],
                 ["tv = (iv > 100) if iv > 1000 else 7", "mon.write(tv)", "tw = 7 if iv < 1000 else (iv > 100)", "mon.write(tw)"],
                 ["bsum = (iv > 0) + (iw > 0)", "mon.write(bsum)", "bdiff = (iv > 0) - (iw < 0) + (iv > -1)", "mon.write(bdiff)"]]
        rng.shuffle(extra)
        for e in extra[: rng.randint(2, 6)]:
            L += e
    k = 0
    for name, params, body, kinds in chosen:
        pools = {"num": ["iv", "fv", "iw", "fw2", "3"], "int": ["iw", "2", "3"], "any": ["iv", "fv", "sv"]}
        for _ in range(rng.randint(2, 4)):
            args = [rng.choice(pools[kk]) for kk in kinds]
            L.append(f"res{k} = {name}({', '.join(args)})")
            L.append(f"mon.write(res{k})")
            k += 1
    if any(name == "localt" for name, *_ in chosen):
        # a global created later with the same name as a helper's local must stay unrelated to it
        L += ["tshared = 7", "mon.write(tshared)", "again = localt(5)", "mon.write(again)", "mon.write(tshared)"]
    return "\n".join(L) + "\n"


def run_case(case):
    idx, profile, sd, passes, hazards = case
    if profile == "poly":
        from ..common import rng_for
        p = {"source": poly_program(rng_for(PROP, sd, "poly", idx)), "features": ["poly-call"], "hazards": []}
    else:
        p = prog.generate((PROP, sd, profile, idx, hazards), profile, hazards=hazards)
    r = engine.differential(p["source"], passes=passes, hazards=True, trace_types=True)
    out = {k: r.get(k) for k in ("outcome", "exc", "diag", "divergence", "why", "fingerprint", "n_model_events", "cpp")}
    out["hz"] = engine.hazards_before(r)
    out["source"] = p["source"]
    out["features"] = p["features"]
    out["gen_hazards"] = p["hazards"]
    out["out_of_range"] = engine.outside_domain(r)
    if r.get("cpp") and r.get("types"):
        probs, checked = type_witness(r["types"], r["cpp"])
        out["type_problems"] = probs[:6]
        out["type_checked"] = checked
        out["n_names"] = len(r["types"])
    return out


def main() -> int:
    rep = Report(PROP)
    t = tier()
    sd = seed()
    n_clean = 300 if t == "quick" else 3000
    cases = [(i, "clean", sd, (1, 2)[i % 2], ()) for i in range(n_clean)]
    cases += [(i, "poly", sd, 1, ()) for i in range(100 if t == "quick" else 800)]
    if t == "thorough":
        for hz in GENHZ_TO_FINDING:
            cases += [(i, "hazard", sd, 2, (hz,)) for i in range(200)]
    for case, st, res in run_cases(run_case, cases):
        if st != "ok":
            rep.inconclusive_because(f"case {case[:3]} failed: {res[-300:]}")
            continue
        clean = case[1] in ("clean", "poly")
        if res.get("out_of_range"):
            rep.case(None, False)
            rep.count("discarded_outside_domain")
            continue
        o = res["outcome"]
        rep.count(("clean:" if clean else "hazard:") + o)
        rep.case(res.get("fingerprint"), o == "equal" and res.get("type_checked", 0) > 0)
        w = {"script.py": res["source"], "sketch.cpp": res.get("cpp") or "", "detail.json": json.dumps({k: res.get(k) for k in ("outcome", "divergence", "type_problems", "hz", "features", "gen_hazards", "diag")}, indent=1, default=str)}

        def attributed():
            if clean:
                return None
            fids = [HAZARD_TO_FINDING[h] for h in res["hz"] if h in HAZARD_TO_FINDING]
            fids += [FEATURE_TO_FINDING[f] for f in res["features"] if f in FEATURE_TO_FINDING]
            fids += [GENHZ_TO_FINDING[h] for h in res["gen_hazards"] if h in GENHZ_TO_FINDING]
            fids = [f for f in fids if f in rep.open_findings]
            return fids[0] if fids else None

        rep.count("declarations_checked_against_python_types", res.get("type_checked", 0))
        rep.count("names_traced", res.get("n_names", 0))
        for key, msg in res.get("type_problems", []):
            fid = attributed()
            if fid:
                rep.known(fid, f"{rep.open_findings[fid]['mechanism'][:90]} (type witness: {msg})", w)
            else:
                rep.violation("type witness: " + msg, w, key="type:" + msg.split(" held ")[-1][:50])
        if o == "diverged" or o in ("fw-hang", "fw-crash"):
            fid = attributed()
            d = res.get("divergence") or {}
            if fid:
                rep.known(fid, f"{rep.open_findings[fid]['mechanism'][:90]} (printed value differs)", w)
            else:
                rep.violation(f"value differs between firmware and CPython ({o}): {d.get('why')} fw={d.get('fw')} py={d.get('py')}", w, key=f"{o}:{d.get('why', '')}")
        elif o in ("py-undefined", "py-budget"):
            rep.count("discarded_not_well_defined")
        if len(rep.samples) < 3 and res.get("type_checked", 0) > 5:
            rep.sample({"script": res["source"][:800], "declarations_checked": res["type_checked"]})
    witness.check_witnesses(rep)
    if rep.counters.get("declarations_checked_against_python_types", 0) == 0:
        rep.inconclusive_because("the type-witness monitor compared no declaration")
    rep.rule = ("type-stable generated programs (int/float/bool/str/list values flowing through assignments, augmented ops, branches, loops, helper parameters and "
                "results, hoisted first assignments) run on both sides; (1) printed values compared; (2) type-witness monitor: a sys.settrace tracer records the set "
                "of Python types every name, parameter and function result ever held, and each emitted C++ declaration (globals, locals, parameters, return types, "
                "per overload variant) must be able to hold them (float never in int/bool, str only in String, list element types likewise). thorough tier adds "
                "type-flow hazard families attributed to the open findings. non-trivial = traces equal and >= 1 declaration checked")
    rep.assumptions = ["an int held in a C float is not a narrowing (values within +-10^4)", "bool is a subtype of int"]
    return rep.finish(min_distinct=40)


if __name__ == "__main__":
    raise SystemExit(main())
