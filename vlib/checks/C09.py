"""C09 - generated firmware is memory-safe and does not leak across loop() passes.
ASan+UBSan (explore run with reports counted, then gate run that halts on the first report) + live-heap monitor."""
from __future__ import annotations

import json

from .. import engine, fw, trace
from ..common import Report, run_cases, seed, tier
from ..gen import lists, prog

PROP = "C09"
PASSES = 6

HAZARD_FINDING = {"list-local": "KF-list-local-leak", "list-alias": "KF-list-alias-shallow-copy", "list-reassign-loop": "KF-list-reassign-temp-leak"}


def heap_series(events):
    return [int(f[1]) for t, kind, f in events if kind == "HEAP" and int(f[0]) >= 0]


def _probe_cases():
    """Feature probes that touch lists / strings / indices (vlib/gen/probes.py): whenever one of them is accepted and compiles,
    the firmware must stay memory-safe. (Their serial output is C01's business.)"""
    from ..gen import probes
    keep = ("list-", "for-in-", "str-", "subscript-store", "negative-step-index", "tuple-index", "enumerate", "unpack-loop", "in-list", "range")
    return [(n, c, s) for n, c, s in probes.all_probes() if n.startswith(keep)]


PROBE_CASES = _probe_cases()


def run_case(case):
    kind, idx, sd, hazards, gate = case
    if kind == "lists":
        p = lists.generate((PROP, sd, "lists", idx, hazards), hazards)
    elif kind == "probe":
        from ..gen import probes
        name, ctx, src = PROBE_CASES[idx]
        p = {"source": src, "features": ["probe:" + name]}
    else:
        p = prog.generate((PROP, sd, "prog", idx), "clean", lists=True)
    script = p["source"]
    out = {"script": script, "features": p["features"], "hazards": list(hazards), "kind": kind}
    t = engine.transpile(script)
    out["transpile"] = t["status"]
    out["exc"] = t.get("exc")
    if t["status"] != "ok":
        return out
    out["cpp"] = t["cpp"]
    with fw.Scratch() as wd:
        py = engine.host_reference(script, wd, passes=PASSES)
        out["py_status"] = py["status"]
        out["py_exc"] = py.get("exc")
        if py["status"] != "ok":
            return out
        b = fw.build(t["cpp"], wd)
        if not b["ok"]:
            out["fw_status"] = "uncompilable"
            out["diag"] = engine.first_diag_line(b["diag"])
            return out
        f = fw.run(b["binary"], wd, passes=PASSES)
        out["fw_status"] = f["status"]
        out["reports"] = sorted({(a, bb, c) for a, bb, c in f["san_reports"]})
        out["n_reports"] = len(f["san_reports"])
        out["stderr"] = f.get("stderr", "")[-600:]
        out["heap"] = heap_series(f["events"])
        out["live"] = py.get("live", [])
        out["fw_nevents"] = len(f["events"])
        oob = [e for e in f["events"] if e[1] == "STR_OOB"]
        out["str_oob"] = len(oob)
        fm = trace.fw_model(f["events"], keep=("SER",))
        pm = trace.py_model(py["events"], keep=("SER",))
        d = trace.compare(fm, pm, timing=False, ignore_pass=True) if f["status"] == "ok" else None
        out["outside"] = engine.outside_domain({"py_events": py.get("events", []), "live": py.get("live", []), "san_reports": f["san_reports"]})
        out["diverged"] = bool(d)
        out["divergence"] = d
        if gate and idx % (40 if tier() == "quick" else 20) == 0:
            pb = fw.build_plain(t["cpp"], wd)
            if pb["ok"]:
                vg = fw.run_valgrind(pb["binary"], wd, passes=3)
                out["valgrind"] = {"status": vg["status"], "errors": vg["errors"], "log": vg.get("log", "")[-600:]}
        if gate:
            g = fw.run(b["binary"], wd, passes=PASSES, gate=True)
            out["gate_status"] = g["status"]
            out["gate_reports"] = sorted({(a, bb) for a, bb, c in g["san_reports"]})
    return out


def leak(heap, live):
    """Strictly growing firmware heap over >= 3 consecutive passes while the Python live-data measure is constant."""
    if len(heap) < 4:
        return None
    # live[k] is sampled at the start of pass k, live[-1] at the end
    run = 0
    for k in range(1, len(heap)):
        same_live = len(live) > k + 1 and live[k] == live[k + 1] if len(live) > k + 1 else False
        if heap[k] > heap[k - 1] and same_live:
            run += 1
            if run >= 3:
                return {"heap": heap, "live": live, "growth_per_pass": heap[k] - heap[k - 1]}
        else:
            run = 0
    return None


def main() -> int:
    rep = Report(PROP)
    t = tier()
    sd = seed()
    n_lists = 200 if t == "quick" else 1500
    n_prog = 80 if t == "quick" else 600
    cases = [("lists", i, sd, (), t == "thorough" or i % 4 == 0) for i in range(n_lists)]
    cases += [("prog", i, sd, (), i % 4 == 0) for i in range(n_prog)]
    for hz in lists.HAZARDS:
        cases += [("lists", i, sd, (hz,), False) for i in range(100 if t == "thorough" else 24)]
    cases += [("probe", i, sd, (), False) for i in range(len(PROBE_CASES))]
    for case, st, res in run_cases(run_case, cases):
        if st != "ok":
            rep.inconclusive_because(f"case {case[:2]} failed: {res[-300:]}")
            continue
        hz = res["hazards"]
        w = {"script.py": res["script"], "sketch.cpp": res.get("cpp") or "", "detail.json": json.dumps({k: res.get(k) for k in ("reports", "heap", "live", "fw_status", "gate_status", "gate_reports", "diag", "stderr", "divergence", "py_exc")}, indent=1, default=str)}
        if res["transpile"] != "ok":
            rep.case(None, False)
            rep.count("transpile:" + res["transpile"])
            continue
        if res.get("py_status") != "ok":
            rep.case(None, False)
            rep.count("discarded_python_" + str(res.get("py_status")))
            continue
        if res.get("fw_status") in ("uncompilable", None):
            rep.case(None, False)
            rep.count("uncompilable_reported_by_C06")
            continue
        if res.get("outside"):
            rep.case(None, False)
            rep.count("discarded_outside_domain")
            continue
        rep.case(str(hash(res["script"])), len(res["heap"]) >= 4)
        rep.count("executions_under_asan_ubsan")
        rep.count("heap_samples", len(res["heap"]))
        for f in res["features"]:
            rep.count("feature:" + f)
        if res["diverged"]:
            rep.count("trace_divergences_reported_by_C01")

        def report(msg, key):
            fids = [HAZARD_FINDING[h] for h in hz if h in HAZARD_FINDING and HAZARD_FINDING[h] in rep.open_findings]
            # a finding explains only its own symptom: the leak findings never excuse a sanitizer report or a crash,
            # the shallow-copy finding never excuses a leak or an overflow
            want = {f["id"]: f.get("expect_c09", "") for f in rep.findings}
            fids = [fid for fid in fids if (want.get(fid) == "leak") == (key == "leak") and
                    (key == "leak" or any(x in key for x in ("use-after-free", "Invalid read", "SEGV", "null pointer")) or key.startswith("fw:") or key.startswith("gate:"))]
            if not fids and key == "leak" and res["kind"] == "probe" and "KF-list-local-leak" in rep.open_findings:
                # the main-loop context of a probe creates its list inside loop(): the recorded local-list leak
                fids = ["KF-list-local-leak"]
            if fids:
                rep.known(fids[0], msg, w)
            elif "list-grow" in hz:
                rep.count("expected_growth_cases")
            else:
                rep.violation(msg, w, key=key)

        if res["fw_status"] not in ("ok",):
            report(f"firmware run ended with {res['fw_status']}: {res.get('stderr', '')[-200:]}", "fw:" + res["fw_status"])
        for a, b, c in res["reports"]:
            report(f"{a} report: {b} at {c}", f"{a}:{b}")
        if "gate_status" in res:
            rep.count("gate_runs")
            if res["gate_status"] != "ok" and not res["reports"]:
                report(f"gate run (halt_on_error) ended with {res['gate_status']} {res.get('gate_reports')}", "gate:" + res["gate_status"])
        if "valgrind" in res:
            rep.count("valgrind_memcheck_runs")
            if res["valgrind"]["status"] == "watchdog":
                rep.count("valgrind_watchdog")
            elif res["valgrind"]["errors"]:
                report(f"valgrind memcheck: {res['valgrind']['errors']}", "valgrind:" + res["valgrind"]["errors"][0][:40])
        lk = leak(res["heap"], res["live"])
        if lk:
            report(f"firmware heap grows by {lk['growth_per_pass']} bytes per loop() pass while Python's live data is constant (heap {lk['heap']})", "leak")
        if len(rep.samples) < 3 and res["kind"] == "lists":
            rep.sample({"script": res["script"][-900:], "heap_after_each_pass": res["heap"], "python_live_measure": res["live"]})
    # witnesses (leak / alias findings are judged by this check's own monitors)
    from ..common import VERIF
    for f in rep.primary_findings:
        if not f.get("witness"):
            continue
        script = (VERIF / f["witness"]).read_text()
        tr = engine.transpile(script)
        rep.count("witnesses_run")
        with fw.Scratch() as wd:
            py = engine.host_reference(script, wd, passes=PASSES)
            b = fw.build(tr["cpp"], wd) if tr["status"] == "ok" else {"ok": False}
            if not b["ok"] or py["status"] != "ok":
                rep.violation(f"witness of {f['id']} no longer runs", {"script.py": script}, key="witness:" + f["id"])
                continue
            r = fw.run(b["binary"], wd, passes=PASSES)
        symptoms = sorted({a + ":" + bb for a, bb, c in r["san_reports"]})
        if leak(heap_series(r["events"]), py.get("live", [])):
            symptoms.append("leak")
        if r["status"] != "ok":
            symptoms.append("status:" + r["status"])
        if not symptoms:
            print(f"note: witness of {f['id']} no longer reproduces (defect gone?)")
        elif any(s.startswith(f["expect_c09"]) for s in symptoms):
            rep.known(f["id"], f"{f['mechanism'][:120]} [witness {f['witness']}: {symptoms}]")
        else:
            rep.violation(f"witness of {f['id']} fails with a different symptom: {symptoms}", {"script.py": script}, key="witness:" + f["id"])
    if rep.counters.get("executions_under_asan_ubsan", 0) == 0:
        rep.inconclusive_because("no firmware executed under the sanitizers")
    rep.rule = ("list/str-heavy programs (literals, comprehensions, append/remove in setup and paired in the main loop, positive/negative/loop-variable/computed "
                "indices, len, string concatenation rebuilt per pass) and core-language programs, each run for 6 loop() passes under ASan+UBSan in recover mode "
                "(reports counted, de-duplicated by kind and sketch frame) and a sample again in gate mode (halt on first report); live heap bytes sampled after "
                "each pass and compared with CPython's live-data measure (sum of list/str sizes reachable from the script's globals). Only scripts whose CPython "
                "run raises nothing are judged. non-trivial = >= 4 heap samples")
    rep.assumptions = ["a clean sanitizer run means 'no report on these executions' (red zones miss intra-object and far overflows)",
                       "LeakSanitizer is not the leak oracle (globals hold memory at exit); the per-pass heap series is"]
    return rep.finish(min_distinct=40)


if __name__ == "__main__":
    raise SystemExit(main())
