"""C12 - target(): validate first, transpile faithfully, upload only on request (fault enumeration)."""
from __future__ import annotations

import configparser
import itertools
import json
import os
import subprocess
import tempfile
from pathlib import Path

from ..common import PY, VERIF, Report, rng_for, run_cases, seed, tier

PROP = "C12"
CHILD = VERIF / "vlib" / "target_child.py"

SCRIPTS = {
    "plain": 'from Reduino.Actuators import Led\nfrom Reduino.Utils import sleep\nled = Led(13)\nwhile True:\n    led.toggle()\n    sleep(500)\n',
    "servo": 'from Reduino.Actuators import Servo\ns = Servo(9)\ns.write(90)\n',
    "lcd_par": 'from Reduino.Displays import LCD\nlcd = LCD(rs=12, en=11, d4=5, d5=4, d6=3, d7=2)\nlcd.line(0, "hi")\n',
    "lcd_i2c": 'from Reduino.Displays import LCD\nlcd = LCD(i2c_addr=0x27, cols=20, rows=4)\nlcd.line(0, "hi")\n',
    "all_libs": 'from Reduino.Actuators import Servo\nfrom Reduino.Displays import LCD\ns = Servo(9)\na = LCD(rs=12, en=11, d4=5, d5=4, d6=3, d7=2)\nb = LCD(i2c_addr=0x27)\nwhile True:\n    s2 = Servo(10)\n    s.write(10)\n',
    "unicode": 'from Reduino.Communication import SerialMonitor\nmon = SerialMonitor(9600)\nmon.write("héllo wörld ✓")\n',
    "rejected": 'from Reduino.Utils import sleep\nfor i in range(1, 5):\n    sleep(1)\n',
}

# libraries the devices declared in each script need (independent of the code under test), plus more orders of the same devices
NEEDS = {"plain": [], "servo": ["Servo"], "lcd_par": ["LiquidCrystal"], "lcd_i2c": ["LiquidCrystal_I2C"], "unicode": [],
         "all_libs": ["LiquidCrystal", "LiquidCrystal_I2C", "Servo"], "lcds_then_servo": ["LiquidCrystal", "LiquidCrystal_I2C", "Servo"],
         "i2c_servo_par": ["LiquidCrystal", "LiquidCrystal_I2C", "Servo"]}
SCRIPTS["lcds_then_servo"] = ('from Reduino.Actuators import Servo, Led\nfrom Reduino.Displays import LCD\nled = Led(13)\nb = LCD(i2c_addr=0x27)\n'
                              'a = LCD(rs=12, en=11, d4=5, d5=4, d6=3, d7=2)\ns = Servo(9)\ns.write(10)\n')
SCRIPTS["i2c_servo_par"] = ('from Reduino.Actuators import Servo\nfrom Reduino.Displays import LCD\nb = LCD(i2c_addr=0x3F)\nwhile True:\n    s = Servo(9)\n'
                            '    s.write(10)\n')
NEEDS["i2c_servo_par"] = ["LiquidCrystal_I2C", "Servo"]
# optional blanks before the parenthesis of a constructor / method call
SCRIPTS["spaced_ctors"] = 'from Reduino.Actuators import Servo\nfrom Reduino.Displays import LCD\ns = Servo (9)\nb = LCD (i2c_addr=0x27)\ns.write (90)\n'
NEEDS["spaced_ctors"] = ["LiquidCrystal_I2C", "Servo"]
# class and header names that only occur in strings and comments
SCRIPTS["names_in_text"] = ('from Reduino.Communication import SerialMonitor\nfrom Reduino.Actuators import Led\nmon = SerialMonitor(9600)\nled = Led(13)  # not a Servo(9), no LCD(\n'
                            'mon.write("No Servo attached")\ntitle = "LiquidCrystal_I2C demo"\nmon.write(title)\nmon.write("LiquidCrystal lcd(1, 2)")\n')
NEEDS["names_in_text"] = []
# a script that is legal Python but not UTF-8 (see ENCODINGS)
SCRIPTS["latin1"] = 'from Reduino.Communication import SerialMonitor\nmon = SerialMonitor(9600)\nmon.write("Temp 25\u00b0C / caf\u00e9")\n'
NEEDS["latin1"] = []
ENCODINGS = {"latin1": "latin-1-cookie", "unicode": None}

PAIRS = {
    "valid_uno": ("atmelavr", "uno", True), "valid_every": ("atmelmegaavr", "nano_every", True), "valid_hyphen": ("atmelavr", "a-star32U4", True),
    "bad_platform": ("espressif32", "uno", False), "bad_board": ("atmelavr", "not_a_board", False),
    "mismatch": ("atmelavr", "nano_every", False), "mismatch2": ("atmelmegaavr", "uno", False),
    "case_board": ("atmelavr", "UNO", False), "case_board2": ("atmelmegaavr", "Nano_Every", False), "case_platform": ("AtmelAVR", "uno", False),
    "space_board": ("atmelavr", "uno ", False),
}


def make_script(body: str, port: str, upload, platform: str, board: str, style: int) -> str:
    kw = []
    if upload is not None:
        kw.append(f"upload={upload}")
    kw.append(f"platform={platform!r}")
    kw.append(f"board={board!r}")
    call = f"target({port!r}, {', '.join(kw)})"
    pre = ""
    if style == 1:
        call = "cpp = " + call
    elif style == 2:
        # the port (and board) come from constants of the script: the VALUES are passed, whatever the call text spells
        pre = f"PORT = {port!r}\nBOARD = {board!r}\n"
        kw2 = [k for k in kw if not k.startswith("board=")] + ["board=BOARD"]
        call = f"target(PORT, {', '.join(kw2)})"
    elif style == 3:
        kw2 = list(reversed(kw))
        call = f"result = target(port={port!r}, {', '.join(kw2)})"
    return "from Reduino import target\n" + pre + call + "\n" + body


def run_child(case):
    cfg = case
    with tempfile.TemporaryDirectory(prefix="reduverif-c12p-") as td:
        cp = Path(td) / "cfg.json"
        op = Path(td) / "out.json"
        cp.write_text(json.dumps(cfg))
        env = dict(os.environ)
        env["PATH"] = "/nonexistent-bin"  # no real pio may ever be reached
        p = subprocess.run([PY, str(CHILD), str(cp), str(op)], capture_output=True, text=True, timeout=120, env=env)
        if p.returncode != 0 or not op.exists():
            return {"harness_error": p.stderr[-1500:]}
        return json.loads(op.read_text())


def spec_check(cfg: dict, out: dict) -> list[tuple[str, str]]:
    """Return list of (key, message) violations of the ordered-effects specification."""
    v = []
    faults = cfg["faults"]
    valid = cfg["valid_pair"]
    upload = cfg["upload_effective"]
    eff = out["effects"]
    runs = [e for e in eff if e[0] == "run"]
    writes = [e for e in eff if e[0] in ("write", "mkdir", "mkdtemp")]
    others = [e for e in eff if e[0] in ("popen", "os.system")]
    outcome = out.get("outcome")
    exc = out.get("exc_type")
    if others:
        v.append(("real-process", f"a real process was spawned: {others[:2]}"))
    if outcome not in ("returned", "raised"):
        v.append(("harness", f"target() outcome {outcome}: {out.get('script_exc')}"))
        return v
    if not valid:
        if not (outcome == "raised" and exc == "ValueError"):
            v.append(("invalid-pair-not-rejected", f"unsupported/mismatched pair {cfg['platform']}/{cfg['board']} gave {outcome} {exc}"))
        if eff:
            v.append(("effects-before-validation", f"effects happened for an invalid pair: {eff[:3]}"))
        return v
    # valid pair
    if not upload:
        if runs:
            v.append(("pio-needed-without-upload", f"PlatformIO was invoked although upload=False: {runs[0][1]}"))
        if outcome == "raised" and exc == "RuntimeError":
            v.append(("pio-needed-without-upload", "RuntimeError (PlatformIO required) although upload=False"))
            return v
    else:
        if faults.get("pio") == "only-platformio":
            # either the missing `pio` is noticed before anything is written, or the whole job is done with the tool that exists
            clean_refusal = outcome == "raised" and exc == "RuntimeError" and not writes
            consistent = outcome == "returned" and all(r[1] and r[1][0] == "platformio" for r in runs)
            if not (clean_refusal or consistent):
                v.append(("pio-check-passed-but-tool-missing", f"only `platformio` is installed: {outcome} {exc}, runs {[r[1] for r in runs]}, {len(writes)} writes"))
            return v
        if faults.get("pio") in ("missing", "fail", "permission", "oserror"):
            if not (outcome == "raised" and exc == "RuntimeError"):
                v.append(("missing-pio-not-runtimeerror", f"upload=True with PlatformIO {faults['pio']}: {outcome} {exc}"))
            if writes:
                v.append(("write-before-pio-check", f"files written before the missing-PlatformIO error: {writes[:2]}"))
            return v
    if cfg.get("encoding") == "latin-1-cookie" and outcome == "raised" and exc in ("UnicodeDecodeError", "ValueError", "SyntaxError"):
        # refusing a script that is not UTF-8 is a rejection like any other - as long as nothing was produced from it
        if writes or [r for r in runs if r[1] != ["pio", "--version"]]:
            v.append(("effects-for-rejected-script", f"effects for a script refused as undecodable: {eff[:3]}"))
        return v
    if not out.get("parse_ok"):
        if not (outcome == "raised" and exc in ("ValueError", "SyntaxError")):
            v.append(("rejected-script-not-propagated", f"script the transpiler rejects: {outcome} {exc}"))
        if writes or [r for r in runs if r[1] != ["pio", "--version"]]:
            v.append(("effects-for-rejected-script", f"effects for a rejected script: {eff[:3]}"))
        return v
    if faults.get("mkdtemp") == "oserror":
        if outcome != "raised":   # (any exception type: only that the failure reaches the caller is required)
            v.append(("mkdtemp-failure-swallowed", f"mkdtemp failure: {outcome} {exc}"))
        if [e for e in eff if e[0] == "write"] or [r for r in runs if r[1] != ["pio", "--version"]]:
            v.append(("effects-after-mkdtemp-failure", f"{eff[:4]}"))
        return v
    if faults.get("write_main") == "oserror" or faults.get("write_ini") == "oserror":
        if outcome != "raised":
            v.append(("write-failure-swallowed", f"file write failure: {outcome} {exc}"))
        if [r for r in runs if r[1] != ["pio", "--version"]]:
            v.append(("build-after-write-failure", f"pio run after a failed write: {runs}"))
        return v
    # files
    files = out.get("files", {})
    exp_cpp = out.get("expected_cpp")
    main = files.get(os.path.join("src", "main.cpp"))
    ini = files.get("platformio.ini")
    pdirs = out.get("project_dirs", [])
    if len(pdirs) != 1:
        v.append(("project-dir-count", f"{len(pdirs)} project directories created"))
    if main is None or ini is None:
        v.append(("project-files-missing", f"files={sorted(files)}"))
    else:
        if main != exp_cpp:
            v.append(("main-cpp-not-transpiled-source", "src/main.cpp differs from emit(parse(script text))"))
        cp = configparser.ConfigParser(interpolation=None)
        try:
            cp.read_string(ini)
            secs = cp.sections()
            sec = cp[secs[0]] if len(secs) == 1 else None
        except configparser.Error:
            sec = None
        if sec is None:
            v.append(("ini-unreadable", "platformio.ini is not a single-environment INI file"))
        else:
            want = {"platform": cfg["platform"], "board": cfg["board"], "framework": "arduino", "upload_port": cfg["port"]}
            for k, val in want.items():
                if sec.get(k) != val:
                    v.append(("ini-field", f"platformio.ini {k}={sec.get(k)!r}, expected {val!r}"))
            got_libs = [x.strip() for x in sec.get("lib_deps", "").splitlines() if x.strip()]
            if got_libs != out.get("expected_libs"):
                v.append(("ini-libs", f"lib_deps={got_libs}, script needs {out.get('expected_libs')}"))
            need = NEEDS.get(cfg["script_name"])
            if need is not None and (sorted(got_libs) != sorted(need) or len(got_libs) != len(set(got_libs))):
                v.append(("ini-libs-vs-devices", f"lib_deps={got_libs}, the declared devices need {need}"))
    # build / upload protocol
    real_runs = [r for r in runs if r[1] != ["pio", "--version"]]
    if not upload:
        if outcome != "returned":
            v.append(("transpile-only-raised", f"upload=False raised {exc}: {out.get('exc_msg')}"))
    else:
        want_runs = [["pio", "run"]]
        if faults.get("build") in ("fail", "signal"):
            if outcome != "raised":   # the failure has to reach the caller (the exception type is not prescribed)
                v.append(("build-failure-swallowed", f"failed build: {outcome} {exc}"))
        else:
            want_runs.append(["pio", "run", "-t", "upload"])
            if faults.get("upload") in ("fail", "signal"):
                if outcome != "raised":   # the failure has to reach the caller (the exception type is not prescribed)
                    v.append(("upload-failure-swallowed", f"failed upload: {outcome} {exc}"))
            elif outcome != "returned":
                v.append(("upload-raised", f"build+upload ok but target() raised {exc}"))
        if [r[1] for r in real_runs] != want_runs:
            v.append(("pio-protocol", f"pio invocations {[r[1] for r in real_runs]}, expected {want_runs}"))
        for r in real_runs:
            if pdirs and r[2] != pdirs[0]:
                v.append(("pio-cwd", f"pio run with cwd={r[2]}, project dir {pdirs[0]}"))
            # (how a failing exit status is turned into an exception - check=True or an explicit test - is not prescribed: the
            # "fail" (exit 1) and "signal" (killed, negative status) fault values judge the behaviour)
    if outcome == "returned":
        if not out.get("ret_is_str") or out.get("ret") != exp_cpp:
            v.append(("return-value", "target() did not return emit(parse(script text))"))
    # ordering: nothing written before validation is trivially true here (valid pair); writes precede runs
    idx_first_build = next((i for i, e in enumerate(eff) if e[0] == "run" and e[1] == ["pio", "run"]), None)
    idx_last_write = max((i for i, e in enumerate(eff) if e[0] == "write"), default=None)
    if idx_first_build is not None and idx_last_write is not None and idx_last_write > idx_first_build:
        v.append(("write-after-build", "project file written after the build started"))
    return v


def main() -> int:
    rep = Report(PROP, level="fault_enumeration")
    t = tier()
    sd = seed()
    rng = rng_for(PROP, sd)
    fault_axes = {
        "pio": ["ok", "missing", "fail", "permission", "oserror", "only-platformio"], "mkdtemp": ["ok", "oserror"], "write_main": ["ok", "oserror"],
        "write_ini": ["ok", "oserror"], "build": ["ok", "fail", "signal"], "upload": ["ok", "fail", "signal"],
    }
    cases = []
    ports = ["COM3", "/dev/ttyACM0", "/dev/tty.usb-1", "COM=9", "rfc2217://192.168.1.50:4000", "//./COM10", "/dev//ttyUSB0", "socket://localhost:7777",
             "/dev/serial/by-id/usb-1a86_USB2.0-Serial-if00-port0", "/dev/./ttyUSB0", "/dev/ttyUSB0/", "\\\\.\\COM10", "COM{3}", "/dev/tty;1", "tty#1"]
    combos = list(itertools.product(*fault_axes.values()))
    keys = list(fault_axes)
    full = []
    for pair_name, (plat, board, valid) in PAIRS.items():
        for sname, body in SCRIPTS.items():
            for upload in (True, False, None):
                for combo in combos:
                    full.append((pair_name, sname, upload, dict(zip(keys, combo))))
    if t == "quick":
        # single-fault and fault-free rows for every (pair, script, upload) + a random sample of multi-fault rows
        sel = [c for c in full if sum(1 for k, v in c[3].items() if v != "ok") <= 1 and
               (c[1] in ("plain", "all_libs", "rejected", "unicode", "lcds_then_servo", "i2c_servo_par", "spaced_ctors", "names_in_text", "latin1") or c[3] == dict.fromkeys(keys, "ok"))]
        sel = [c for c in sel if PAIRS[c[0]][2] or c[3] == dict.fromkeys(keys, "ok") or c[3]["pio"] != "ok"]
        rest = [c for c in full if c not in sel]
        rng.shuffle(rest)
        sel += rest[:60]
    else:
        # every row with at most two simultaneous faults + a large random sample of the rest of the product
        sel = [c for c in full if sum(1 for k, v in c[3].items() if v != "ok") <= 2]
        rest = [c for c in full if sum(1 for k, v in c[3].items() if v != "ok") > 2]
        rng.shuffle(rest)
        sel += rest[:4000]
    for k, (pair_name, sname, upload, faults) in enumerate(sel):
        plat, board, valid = PAIRS[pair_name]
        port = ports[k % len(ports)]
        cases.append({"script": make_script(SCRIPTS[sname], port, upload, plat, board, k % 4), "faults": faults,
                      "platform": plat, "board": board, "port": port, "valid_pair": valid,
                      "upload_effective": True if upload is None else upload, "script_name": sname, "pair": pair_name,
                      "upload_arg": upload, "encoding": ENCODINGS.get(sname)})
    rep.extra["fault_points"] = keys
    rep.extra["full_product_size"] = len(full)
    for cfg, st, out in run_cases(run_child, cases):
        label = f"{cfg['pair']}/{cfg['script_name']}/upload={cfg['upload_arg']}/" + ",".join(f"{k}={v}" for k, v in cfg["faults"].items() if v != "ok")
        if st != "ok" or "harness_error" in out:
            rep.inconclusive_because(f"child failed for {label}: {(out if st != 'ok' else out['harness_error'])[-200:]}")
            continue
        rep.case(label, bool(out.get("effects")) or out.get("outcome") == "raised")
        rep.count("effects_observed", len(out.get("effects", [])))
        rep.count("outcome:" + str(out.get("outcome")) + ":" + str(out.get("exc_type")))
        for key, msg in spec_check(cfg, out):
            w = {"script.py": cfg["script"], "detail.json": json.dumps({"case": {k: v for k, v in cfg.items() if k != "script"},
                 "effects": out.get("effects"), "outcome": out.get("outcome"), "exc": out.get("exc_type"), "msg": out.get("exc_msg")}, indent=1)}
            fid = KNOWN.get(key)
            if fid and fid in rep.open_findings:
                rep.known(fid, msg, w)
            else:
                rep.violation(f"{label}: {msg}", w, key=key)
        if len(rep.samples) < 4 and out.get("effects"):
            rep.sample({"case": label, "effects": out["effects"][:8], "outcome": out.get("outcome"), "exc": out.get("exc_type")})
    # ---- histories: the same script path transpiled again after its text changed (one process)
    hist = [{"script": make_script(SCRIPTS["plain"], "COM3", False, "atmelavr", "uno", 0), "second": make_script(SCRIPTS["servo"], "COM3", False, "atmelavr", "uno", 1),
             "faults": {}, "platform": "atmelavr", "board": "uno", "port": "COM3", "valid_pair": True, "upload_effective": False, "script_name": "plain->servo",
             "pair": "valid_uno", "upload_arg": False},
            {"script": make_script(SCRIPTS["lcd_i2c"], "COM7", False, "atmelmegaavr", "nano_every", 1), "second": make_script(SCRIPTS["plain"], "COM7", False, "atmelmegaavr", "nano_every", 1),
             "faults": {}, "platform": "atmelmegaavr", "board": "nano_every", "port": "COM7", "valid_pair": True, "upload_effective": False, "script_name": "lcd->plain",
             "pair": "valid_every", "upload_arg": False}]
    # ... and rewritten to a text of the SAME length with the file's time stamps restored (an editor or a copy that preserves them)
    same_a = make_script(SCRIPTS["plain"], "COM3", False, "atmelavr", "uno", 0)
    same_b = same_a.replace("Led(13)", "Led(12)").replace("sleep(500)", "sleep(250)")
    assert len(same_a) == len(same_b) and same_a != same_b
    hist.append({"script": same_a, "second": same_b, "second_same_stat": True, "faults": {}, "platform": "atmelavr", "board": "uno", "port": "COM3", "valid_pair": True,
                 "upload_effective": False, "script_name": "plain->plain'(same size, same mtime)", "pair": "valid_uno", "upload_arg": False})
    for cfg, st, out in run_cases(run_child, hist):
        if st != "ok" or "harness_error" in out:
            rep.inconclusive_because(f"history child failed: {(out if st != 'ok' else out['harness_error'])[-200:]}")
            continue
        rep.case("history:" + cfg["script_name"], True)
        rep.count("history_cases")
        sec = out.get("second") or {}
        if sec.get("ret") != sec.get("expected_cpp") or sec.get("libs_written") != sec.get("expected_libs"):
            rep.violation(f"history {cfg['script_name']}: the second target() call on the same path (file rewritten) did not transpile the new text "
                          f"(libs written {sec.get('libs_written')}, needed {sec.get('expected_libs')})", {"script.py": cfg["script"], "second.py": cfg["second"]}, key="history-stale")
    # ---- histories: the very same target() call twice in one process, under the same fault: same outcome, same kind of effects
    rcases = []
    for sname, upload, faults in (("plain", True, {"pio": "missing"}), ("servo", True, {"pio": "fail"}), ("plain", True, {}), ("all_libs", False, {}),
                                  ("plain", True, {"build": "fail"}), ("lcd_i2c", None, {"pio": "missing"}), ("plain", True, {"mkdtemp": "oserror"})):
        rcases.append({"script": make_script(SCRIPTS[sname], "COM3", upload, "atmelavr", "uno", 0), "faults": faults, "platform": "atmelavr", "board": "uno",
                       "port": "COM3", "valid_pair": True, "upload_effective": True if upload is None else upload, "script_name": f"{sname} twice",
                       "pair": "valid_uno", "upload_arg": upload, "repeat": True})
    for cfg, st, out in run_cases(run_child, rcases):
        if st != "ok" or "harness_error" in out:
            rep.inconclusive_because(f"repeat child failed: {(out if st != 'ok' else out['harness_error'])[-200:]}")
            continue
        r = out.get("repeat") or {}
        rep.case("repeat:" + cfg["script_name"] + json.dumps(cfg["faults"]), True)
        rep.count("repeat_cases")

        def kinds(effs):
            # temp directory names differ from call to call: compare the kind and, for commands, the argv
            # (the `pio --version` availability probe is left out: remembering a SUCCESSFUL probe would be legitimate)
            return [[e[0], e[1] if e[0] == "run" else None] for e in effs if not (e[0] == "run" and e[1] == ["pio", "--version"])]

        if (r.get("outcome"), r.get("exc_type")) != (r.get("first_outcome"), r.get("first_exc_type")) or kinds(r.get("effects", [])) != kinds(r.get("first_effects", [])) \
                or (r.get("outcome") == "returned" and not r.get("same_return")):
            rep.violation(f"{cfg['script_name']} with faults {cfg['faults']}: the second identical target() call behaved differently: first "
                          f"{r.get('first_outcome')}/{r.get('first_exc_type')} effects {kinds(r.get('first_effects', []))[:6]}, second {r.get('outcome')}/{r.get('exc_type')} "
                          f"effects {kinds(r.get('effects', []))[:6]}", {"script.py": cfg["script"]}, key="repeat-differs")
    rep.rule = ("product of (platform,board) pairs {valid, unknown platform, unknown board, mismatched} x scripts {no lib, "
                "servo, parallel LCD, I2C LCD, all, non-ASCII, rejected-by-transpiler} x upload {True, False, default} x "
                "fault points {pio discovery: ok/missing/non-zero/permission/oserror, mkdtemp, write main.cpp, write platformio.ini, build and "
                "upload: ok/exit 1/killed by a signal}; same-path and repeat-call histories; quick = all fault-free and single-fault rows + 60 random multi-fault rows, thorough = every row "
                "with at most two simultaneous faults + 4000 random rows of the rest of the product. Each row runs target() in a child with recording fakes; the ordered effect log is checked "
                "against the specification. non-trivial = at least one effect or an exception observed")
    rep.assumptions = ["subprocess.run, tempfile.mkdtemp, Path.write_text/mkdir are the only effect channels (audit hook watches Popen/os.system)"]
    return rep.finish(min_distinct=50, exhaustive=False)


KNOWN = {}

if __name__ == "__main__":
    raise SystemExit(main())
