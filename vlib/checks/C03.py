"""C03 - transpile-time evaluation (constant folding/propagation) never changes meaning.
Metamorphic pairs P / P' that Python cannot tell apart, executed on both sides: 4-way trace equality."""
from __future__ import annotations

import json

from .. import engine, fw, trace, witness
from ..common import Report, rng_for, run_cases, seed, tier

PROP = "C03"

HDR = """from Reduino import target
target("COM3")
from Reduino.Actuators import Led, RGBLed, Servo, Buzzer
from Reduino.Communication import SerialMonitor
from Reduino.Displays import LCD
from Reduino.Sensors import Ultrasonic
from Reduino.Utils import sleep
from Reduino.Core import analog_read

mon = SerialMonitor(9600)
led = Led(5)
rgb = RGBLed(9, 10, 11)
lcd = LCD(rs=12, en=13, d4=2, d5=3, d6=4, d7=7)
sensor_level = analog_read(0)
"""

# analog_read(0) tape is always < 1024, so `sensor_level > 2000` is false and `sensor_level >= 0` true at run time,
# but the folder cannot know either.
DEAD = "sensor_level > 2000"
LIVE = "sensor_level >= 0"


N_KINDS = 26


def _cint(rng, d):
    if d <= 0 or rng.random() < 0.25:
        return rng.choice([str(rng.randint(0, 20)), f"({-rng.randint(1, 20)})", str(rng.choice([0, 1, 2, 3, 7, 10, 100, 255])), 'len("abc")', "0x1F"])
    a, b = _cint(rng, d - 1), _cint(rng, d - 1)
    form = rng.choice(["{a} + {b}", "{a} - {b}", "{a} * {b}", "{a} // {b}", "{a} % {b}", "-({a})", "abs({a})", "min({a}, {b})", "max({a}, {b})", "int({a} / {b})",
                       "({a} if {B} else {b})", "({B}) * {a}", "{a} & {b}", "{a} | {b}", "{a} ^ {b}", "{a} << 2", "{a} >> 1", "int({B})", "(({B}) + ({C}))", "({a} if {B} else {b})"])
    return "(" + form.format(a=a, b=b, B=_cbool(rng, d - 1), C=_cbool(rng, d - 1)) + ")"


def _cbool(rng, d):
    a, b, c, e = (_cint(rng, max(0, d - 1)) for _ in range(4))
    ops = ["<", "<=", ">", ">=", "==", "!="]
    form = rng.choice(["{a} {o1} {b}", "{a} {o1} {b} {o2} {c}", "{a} {o1} {b} {o2} {c}", "{a} {o1} {b} {o2} {c} {o3} {e}", "not ({a} {o1} {b})",
                       "({a} {o1} {b}) and ({b} {o2} {c})", "({a} {o1} {b}) or ({c} {o2} {e})", "not ({a} {o1} {b} {o2} {c})"])
    return form.format(a=a, b=b, c=c, e=e, o1=rng.choice(ops), o2=rng.choice(ops), o3=rng.choice(ops))


def const_expr(rng):
    """A name-free integer expression over the operators a constant evaluator has to get right (floor division and modulo of negative
    operands, chained comparisons whose links are not monotone, boolean operators, conditional expressions, bit operators, bools used
    as numbers) and its value according to CPython, folded into 1..180."""
    for _ in range(200):
        e = f"abs({_cint(rng, rng.choice([2, 3, 3]))}) % 180 + 1"
        try:
            val = eval(e, {"__builtins__": {}}, {"abs": abs, "min": min, "max": max, "int": int, "len": len})
        except (ZeroDivisionError, ValueError, OverflowError):
            continue
        if isinstance(val, int) and len(e) < 400:
            return e, val
    return "17 // 3 * 3 + 17 % 3", 17


def site(rng, k):
    """A fold site: returns dict(kind, decl(var form), use_lit, use_var, var, mutate(value-change line), finding keys)."""
    kinds = ["sleep", "brightness", "blink", "len-str", "len-list", "flash-pattern", "glyph", "rgb", "fade", "ultra-model", "servo-bounds", "range-count", "expr-fold", "const-arith", "param-shadow", "led-rebind", "swap-fold", "aug-fold", "twin-literals", "remove-dup", "reset-same-const", "single-pass-for", "len-arg-twice", "derived-after-change", "tuple-new-from-changed", "join-same-literal"]
    assert len(kinds) == N_KINDS
    kind = kinds[k % len(kinds)]
    v = f"v{k}"
    if kind == "sleep":
        a, b = rng.choice([(250, 40), (20, 7), (1, 99)])
        return dict(kind=kind, var=v, decl=f"{v} = {a}", lit=f"sleep({a})", use=f"sleep({v})", expr=f"sleep({a // 2} * 2 + {a % 2})", mut=f"{v} = {b}", mut_lit=f"sleep({b})")
    if kind == "brightness":
        a, b = rng.choice([(128, 7), (255, 0), (1, 200)])
        return dict(kind=kind, var=v, decl=f"{v} = {a}", lit=f"led.set_brightness({a})", use=f"led.set_brightness({v})", expr=f"led.set_brightness({a} + 0)", mut=f"{v} = {b}", mut_lit=f"led.set_brightness({b})")
    if kind == "blink":
        a, b = rng.choice([(5, 2), (1, 3)])
        return dict(kind=kind, var=v, decl=f"{v} = {a}", lit=f"led.blink({a}, times=2)", use=f"led.blink({v}, times=2)", expr=f"led.blink({a} * 1, times=1 + 1)", mut=f"{v} = {b}", mut_lit=f"led.blink({b}, times=2)")
    if kind == "len-str":
        # (the last two contain characters that are escaped in the C++ literal: they still count once)
        a, b = rng.choice([("hello", "hi"), ("", "abc"), ("x y", "longer text"), ('say \\"hi\\"', "ab"), ("C:\\\\temp", 'q\\"'), ('a\\"b', "x\\\\y")])
        return dict(kind=kind, var=v, decl=f'{v} = "{a}"', lit=f'mon.write(len("{a}"))', use=f"mon.write(len({v}))", expr=f'mon.write(len("{a}") + 0)', mut=f'{v} = "{b}"', mut_lit=f'mon.write(len("{b}"))', stale="KF-stale-len-str")
    if kind == "len-list":
        a = rng.choice([[1, 2, 3], [5], [4, 4]])
        return dict(kind=kind, var=v, decl=f"{v} = {a}", lit=f"mon.write({len(a)})", use=f"mon.write(len({v}))", expr=f"mon.write(len({a}))", mut=f"{v}.append(9)", mut_lit=f"mon.write({len(a) + 1})", stale="KF-stale-len")
    if kind == "flash-pattern":
        # (patterns ending in repeated entries: every entry is held for delay_ms, also the last ones)
        a, b = rng.choice([([1, 0, 1], [0, 1, 0]), ([1, 128, 0], [255, 0, 1]), ([1, 0], [0, 1, 1]), ([1, 0, 0], [1, 1, 1]), ([1, 1, 1], [0, 0, 0]), ([128, 0, 0, 0], [1, 2, 2, 2])])
        return dict(kind=kind, var=v, decl=f"{v} = {a}", lit=f"led.flash_pattern({a}, 3)", use=f"led.flash_pattern({v}, 3)", expr=None, mut=f"{v} = {b}", mut_lit=f"led.flash_pattern({b}, 3)", stale="KF-stale-flash-pattern")
    if kind == "glyph":
        rows = [rng.choice([0, 31, 17, 4, 10]) for _ in range(7)]
        a, b = rng.choice([(17, 4), (0, 31), (21, 10)])
        def g(x):
            return "[" + ", ".join([str(x)] + [str(r) for r in rows]) + "]"
        return dict(kind=kind, var=v, decl=f"{v} = {a}", lit=f"lcd.glyph(1, {g(a)})", use=f"lcd.glyph(1, {g(v)})", expr=f"lcd.glyph(1, {g(str(a) + ' + 0')})", mut=f"{v} = {b}", mut_lit=f"lcd.glyph(1, {g(b)})", stale="KF-stale-glyph")
    if kind == "rgb":
        a, b = rng.choice([(200, 10), (0, 255)])
        return dict(kind=kind, var=v, decl=f"{v} = {a}", lit=f"rgb.set_color({a}, 5, 6)", use=f"rgb.set_color({v}, 5, 6)", expr=f"rgb.set_color({a} - 0, 5, 6)", mut=f"{v} = {b}", mut_lit=f"rgb.set_color({b}, 5, 6)")
    if kind == "fade":
        # (5|9|125 over 2|2|50 steps: the per-step delay is an exact .5 tie, the run-time formula and any baked value must agree)
        a, b, st = rng.choice([(20, 4, 5), (10, 30, 5), (5, 9, 2), (9, 5, 2), (125, 25, 50)])
        return dict(kind=kind, var=v, decl=f"{v} = {a}", lit=f"rgb.fade(100, 50, 0, duration_ms={a}, steps={st})", use=f"rgb.fade(100, 50, 0, duration_ms={v}, steps={st})",
                    expr=f"rgb.fade(100, 50, 0, duration_ms={a} * 1, steps={st * 2} // 2)", mut=f"{v} = {b}", mut_lit=f"rgb.fade(100, 50, 0, duration_ms={b}, steps={st})")
    if kind == "ultra-model":
        return dict(kind=kind, var=v, decl=f'{v} = "hc_sr04"', lit='us = Ultrasonic(14, 15, sensor="hc_sr04")', use=f"us = Ultrasonic(14, 15, sensor={v})", expr='us = Ultrasonic(14, 15, sensor="HC" + "-SR04")', mut=None, mut_lit=None, after="mon.write(us.measure_distance())")
    if kind == "servo-bounds":
        a, b = 30, 60
        return dict(kind=kind, var=v, decl=f"{v} = {a}", lit=f"sv = Servo(6, min_angle={a})\nsv.write(45)\nmon.write(sv.read())", use=f"sv = Servo(6, min_angle={v})\nsv.write(45)\nmon.write(sv.read())", expr=f"sv = Servo(6, min_angle={a} + 0)\nsv.write(45)\nmon.write(sv.read())", mut=None, mut_lit=None)
    if kind == "range-count":
        a, b = rng.choice([(3, 1), (2, 4)])
        return dict(kind=kind, var=v, decl=f"{v} = {a}", lit=f"for q{k} in range({a}):\n    mon.write(q{k})", use=f"for q{k} in range({v}):\n    mon.write(q{k})", expr=f"for q{k} in range({a} + 0):\n    mon.write(q{k})", mut=f"{v} = {b}", mut_lit=f"for q{k} in range({b}):\n    mon.write(q{k})")
    if kind == "param-shadow":
        # a helper parameter named like a top-level constant: inside the helper the parameter's run-time value counts
        g, arg = rng.choice([("hello", "hi"), ("abcd", "x"), ("", "four")])
        ann = rng.choice([": str", "", ""])   # (without an annotation the call site decides the parameter's type)
        # (the call is an assignment: a helper called as a bare statement gets no call-site types - finding stmt-call-types)
        pre = f'msg{k} = "{g}"\ndef show{k}(msg{k}{ann}):\n    mon.write(len(msg{k}))\n    sleep(len(msg{k}) * 10)\n    return len(msg{k}) + 1\n'
        lit = pre.replace(f"len(msg{k})", str(len(arg))) + f'rs{k} = show{k}("{arg}")\nmon.write(rs{k})'
        use = pre + f'rs{k} = show{k}("{arg}")\nmon.write(rs{k})'
        return dict(kind=kind, var=v, decl=f"{v} = 0", lit=lit, use=use, expr=use, mut=None, mut_lit=None, whole=True)
    if kind == "led-rebind":
        # the same Led name bound twice: operations before the re-binding act on the first pin
        p1, p2 = rng.choice([(6, 8), (16, 17)])
        use = f"ld{k} = Led({p1})\nld{k}.on()\nsleep(2)\nld{k} = Led({p2 - 2} + 2)\nld{k}.on()\nld{k}.off()"
        lit = f"la{k} = Led({p1})\nla{k}.on()\nsleep(2)\nlb{k} = Led({p2})\nlb{k}.on()\nlb{k}.off()"
        return dict(kind=kind, var=v, decl=f"{v} = 0", lit=lit, use=use, expr=use, mut=None, mut_lit=None, whole=True)
    if kind in ("derived-after-change", "tuple-new-from-changed"):
        # a new global derived from a name whose value changed since its first assignment (straight-line, or inside a top-level block
        # that runs at start-up): the derived value is computed at that program point, not from the first value
        a0, d = rng.choice([(2, 1), (10, 5), (0, 3)])
        how = rng.choice(["plain", "for", "if", "while"])
        chg = {"plain": f"g{k} = {a0 + 3 * d}", "for": f"for q{k} in range(3):\n    g{k} = g{k} + {d}", "if": f"if {LIVE}:\n    g{k} = g{k} + {3 * d}",
               "while": f"w{k} = 3\nwhile w{k} > 0:\n    w{k} -= 1\n    g{k} += {d}"}[how]
        a1 = a0 + 3 * d
        if kind == "derived-after-change":
            use = f"g{k} = {a0}\n{chg}\nh{k} = g{k} * 3\nmon.write(h{k})\nsleep(h{k} + 1)"
            lit = f"mon.write({a1 * 3})\nsleep({a1 * 3 + 1})"
        else:
            use = f"g{k} = {a0}\n{chg}\nh{k}, j{k} = g{k}, {d}\nmon.write(h{k})\nmon.write(j{k})\nsleep(h{k} + j{k})"
            lit = f"mon.write({a1})\nmon.write({d})\nsleep({a1 + d})"
        return dict(kind=kind, var=v, decl=f"{v} = 0", lit=lit, use=use, expr=use, mut=None, mut_lit=None, whole=True)
    if kind == "join-same-literal":
        # a string first bound inside an if/else, every arm assigning the SAME literal, one arm extending it in a nested block taken at
        # run time: whatever is derived from it after the statement sees the extended value
        a, b = rng.choice([("abc", "def"), ("", "xy"), ("q", "q")])
        nest = rng.choice([f"if {LIVE}:", "for qq in range(1):", "try:"])
        tail = ["    except:", "        pass"] if nest == "try:" else []
        use = "\n".join([f"if {LIVE}:", f"    js{k} = \"{a}\"", "    " + nest, f"        js{k} = js{k} + \"{b}\""] + tail + ["else:", f"    js{k} = \"{a}\"",
                          f"mon.write(len(js{k}))", f"jt{k} = js{k} + \"!\"", f"mon.write(len(jt{k}))", f"sleep(len(js{k}) * 10 + 1)"])
        n = len(a + b)
        lit = f"mon.write({n})\nmon.write({n + 1})\nsleep({n * 10 + 1})"
        return dict(kind=kind, var=v, decl=f"{v} = 0", lit=lit, use=use, expr=use, mut=None, mut_lit=None, whole=True)
    if kind == "reset-same-const":
        # a name set back to the constant it was initialised with, after a block (taken at run time) changed it: all stores count
        a, d = rng.choice([(5, 2), (0, 7), (40, 1)])
        blk = rng.choice([f"if {LIVE}:\n    r{k} = r{k} + {d}", f"for q{k} in range(1):\n    r{k} = r{k} + {d}", f"w{k} = 1\nwhile w{k} > 0:\n    w{k} -= 1\n    r{k} += {d}"])
        use = f"r{k} = {a}\n{blk}\nmon.write(r{k})\nsleep(r{k} + 1)\nr{k} = {a}\nmon.write(r{k})\nsleep(r{k} + 1)\nled.set_brightness(r{k})"
        lit = f"mon.write({a + d})\nsleep({a + d + 1})\nmon.write({a})\nsleep({a + 1})\nled.set_brightness({a})"
        return dict(kind=kind, var=v, decl=f"{v} = 0", lit=lit, use=use, expr=use, mut=None, mut_lit=None, whole=True)
    if kind == "single-pass-for":
        # a counted loop whose count folds to 1, left through a conditional break, inside another loop: same as with a run-time count
        cnt = rng.choice(["1", "3 - 2", 'len("x")', "2 // 2"])
        body = "    for i{k} in range({c}):\n        mon.write(o{k})\n        if o{k} >= {t}:\n            break\n        mon.write(\"tail\")\n    mon.write(\"after\")\n    sleep(o{k} + 1)"
        t = rng.choice([0, 1])
        use = f"for o{k} in range(3):\n" + body.format(k=k, c=cnt, t=t)
        lit = f"one{k} = analog_read(1) + 1\nfor o{k} in range(3):\n" + body.format(k=k, c=f"one{k}", t=t)
        return dict(kind=kind, var=v, decl=f"{v} = 0", lit=lit, use=use, expr=use, mut=None, mut_lit=None, whole=True)
    if kind == "len-arg-twice":
        # the same argument text twice in one block with the list changed in between: each call sees the length at its own time
        n0 = rng.choice([2, 3])
        wrap = rng.choice(["if {c}:\n{b}", "def run{k}():\n{b}\n    return 0\nz{k} = run{k}()", "for q{k} in range(1):\n{b}", "{b0}"])
        lines = [f"led.set_brightness(len(xs{k}) * 40)", "sleep(len(xs{k}) + 1)".format(k=k), f"xs{k}.append(9)", f"led.set_brightness(len(xs{k}) * 40)", "sleep(len(xs{k}) + 1)".format(k=k),
                 f"rgb.set_color(len(xs{k}) * 40, 1, 2)"]
        lits = [f"led.set_brightness({n0 * 40})", f"sleep({n0 + 1})", f"led.set_brightness({(n0 + 1) * 40})", f"sleep({n0 + 2})", f"rgb.set_color({(n0 + 1) * 40}, 1, 2)"]
        def w(ls):
            return wrap.format(c=LIVE, k=k, b="\n".join("    " + l for l in ls), b0="\n".join(ls))
        use = f"xs{k} = {list(range(1, n0 + 1))}\n" + w(lines)
        lit = w(lits).replace(f"run{k}", f"run{k}")
        return dict(kind=kind, var=v, decl=f"{v} = 0", lit=lit, use=use, expr=use, mut=None, mut_lit=None, whole=True)
    if kind == "swap-fold":
        # after a parallel assignment the transpile-time view of the names must be the swapped one
        a, b = rng.choice([("ab", "wxyz"), ("", "q")])
        x, y = rng.choice([(3, 5), (0, 17)])
        form = rng.choice(["swap", "fib"])
        if form == "swap":
            nx, ny = y, x
            tup = f"x{k}, y{k} = y{k}, x{k}"
        else:
            nx, ny = y, x + y
            tup = f"x{k}, y{k} = y{k}, x{k} + y{k}"
        use = (f's{k} = "{a}"\nt{k} = "{b}"\ns{k}, t{k} = t{k}, s{k}\nmon.write(len(t{k}))\nsleep(len(s{k}) * 10 + 1)\n'
               f"x{k} = {x}\ny{k} = {y}\n{tup}\npa{k} = [x{k}, y{k}, 1]\nled.flash_pattern(pa{k}, 2)\nsleep(y{k} + 1)")
        lit = f'mon.write({len(a)})\nsleep({len(b) * 10 + 1})\nled.flash_pattern({[nx, ny, 1]}, 2)\nsleep({ny + 1})'
        return dict(kind=kind, var=v, decl=f"{v} = 0", lit=lit, use=use, expr=use, mut=None, mut_lit=None, whole=True)
    if kind == "remove-dup":
        # remove(x) takes out the FIRST x only; whatever is folded from the list afterwards must see the others
        vals = rng.choice([[1, 0, 1, 0], [5, 5, 7], [0, 2, 0, 2, 0]])
        x = rng.choice(sorted(set(v2 for v2 in vals if vals.count(v2) > 1)))
        after = list(vals)
        after.remove(x)
        use = (f"rd{k} = {vals}\nrd{k}.remove({x})\nmon.write(len(rd{k}))\nled.flash_pattern(rd{k}, 2)\nfor q{k} in range(len(rd{k})):\n    mon.write(rd{k}[q{k}])\n"
               f"mon.write(rd{k}[len(rd{k}) - 1])")
        lit = (f"mon.write({len(after)})\nled.flash_pattern({after}, 2)\n" + "\n".join(f"mon.write({v2})" for v2 in after) + f"\nmon.write({after[-1]})")
        return dict(kind=kind, var=v, decl=f"{v} = 0", lit=lit, use=use, expr=use, mut=None, mut_lit=None, whole=True)
    if kind == "twin-literals":
        # two lists written with the same literal text are two lists: changing one leaves every fold on the other alone
        lit_l = rng.choice(["[1, 0, 1]", "[5, 6]", "[1, 0, 128, 0]"])
        vals = eval(lit_l)
        extra = rng.choice([0, 1, 64])
        use = (f"ta{k} = {lit_l}\ntb{k} = {lit_l}\nta{k}.append({extra})\nmon.write(len(tb{k}))\nled.flash_pattern(tb{k}, 3)\n"
               f"tc{k} = {lit_l}\nmon.write(len(tc{k}))\nfor q{k} in range(len(tb{k})):\n    mon.write(tb{k}[q{k}])\nmon.write(len(ta{k}))")
        lit = (f"mon.write({len(vals)})\nled.flash_pattern({lit_l}, 3)\nmon.write({len(vals)})\n" +
               "\n".join(f"mon.write({x})" for x in vals) + f"\nmon.write({len(vals) + 1})")
        return dict(kind=kind, var=v, decl=f"{v} = 0", lit=lit, use=use, expr=use, mut=None, mut_lit=None, whole=True)
    if kind == "aug-fold":
        # after an augmented assignment the name holds a run-time value: everything derived from it is evaluated at run time
        a, b = rng.choice([("ab", "c"), ("", "xyz"), ("q", "")])
        n0, dn = rng.choice([(0, 1), (3, 4)])
        use = (f's{k} = "{a}"\ns{k} += "{b}"\nmon.write(len(s{k}))\nt{k} = s{k} + "!"\nmon.write(len(t{k}))\nsleep(len(s{k}) * 10 + 1)\n'
               f'n{k} = {n0}\nn{k} += {dn}\nm{k} = f"n={{n{k}}}"\nmon.write(len(m{k}))\nw{k} = 5 if n{k} == {n0 + dn} else 7\nsleep(w{k})')
        la, ln = len(a + b), len(f"n={n0 + dn}")
        lit = f'mon.write({la})\nmon.write({la + 1})\nsleep({la * 10 + 1})\nmon.write({ln})\nsleep(5)'
        return dict(kind=kind, var=v, decl=f"{v} = 0", lit=lit, use=use, expr=use, mut=None, mut_lit=None, whole=True)
    if kind == "const-arith":
        # name-free arithmetic in folded argument positions: the baked literal must be what Python computes
        exprs = ["1000 + (-250 // 3)", "250 // -4 + 100", "(-7) % 3 + 10", "7 % -3 + 10", "2 ** 5", "3 << 2", "-17 // 5 + 20", "int(7 / 2) + 1",
                 "abs(-9 // 2)", "max(3, -10 // 3) + 4", "min(100, 2 ** 7)", "100 - (-1) ** 3", "int(-3.5) + 10", "round(0) + 5" if False else "17 // 3 * 3 + 17 % 3",
                 "(10 - 25) // 4 + 30", "-(-9 // 2)", "255 & 0x0F | 16", "1 if -1 // 2 == -1 else 200"]
        lits, uses = [], []
        for j in range(8):
            # (one expression from the fixed list, seven generated ones per case)
            if j in (1, 2, 3):
                # a condition that alone decides the value (chains of 3-4 small operands: every link matters)
                ops = ["<", "<=", ">", ">=", "==", "!="]
                n_ops = rng.choice([2, 2, 3])
                chain = str(rng.randint(0, 6)) + "".join(f" {rng.choice(ops)} {rng.randint(0, 6)}" for _ in range(n_ops))
                cond = rng.choice(["{c}", "not ({c})", "({c}) and (2 < 3)", "(1 > 2) or ({c})"]).format(c=chain)
                x, y = rng.sample([5, 20, 60, 90, 120, 200], 2)
                e = rng.choice(["{x} if {c} else {y}", "({c}) * {x} + {y}", "{y} + int({c}) * {x}"]).format(c=cond, x=x, y=y)
                val = eval(e)
            elif j > 0:
                e, val = const_expr(rng)
            else:
                e = rng.choice(exprs)
                val = eval(e)
            site_fn = rng.choice(["sleep({})", "led.set_brightness({})", "led.blink({}, times=1)", "rgb.set_color({}, 1, 2)"])
            lits.append(site_fn.replace("{}", str(val)))
            uses.append(site_fn.replace("{}", e))
        lit, use = "\n".join(lits), "\n".join(uses)
        return dict(kind=kind, var=v, decl=f"{v} = 0", lit=lit, use=use, expr=use, mut=None, mut_lit=None)
    a, b = rng.choice([(7, 3), (12, 5)])
    return dict(kind="expr-fold", var=v, decl=f"{v} = {a}", lit=f"mon.write({a} * 2 + 1)\nw{k} = {a} * 2 + 1\nmon.write(w{k})", use=f"mon.write({v} * 2 + 1)\nw{k} = {v} * 2 + 1\nmon.write(w{k})", expr=f"mon.write({a * 2 + 1})\nw{k} = {a * 2 + 1}\nmon.write(w{k})", mut=f"{v} = {b}", mut_lit=f"mon.write({b} * 2 + 1)\nw{k} = {b} * 2 + 1\nmon.write(w{k})")


def indent(text, n=1):
    return "\n".join("    " * n + l for l in text.splitlines())


def make_pair(rng, idx):
    """-> (P, P', transformation, site kind, expected finding id or None)"""
    s = site(rng, idx)
    forms = ["delit"]
    if s.get("expr"):
        forms.append("delit-expr")
    if s.get("mut"):
        forms += ["dead-branch", "dead-loop", "live-branch"]
    # site kind = idx mod N_KINDS (see site()); transformation and placement cycle deterministically over the rounds,
    # so every (site, transformation, placement) triple occurs once 2 * len(forms) * N_KINDS cases have run
    rnd = idx // N_KINDS
    tr = forms[rnd % len(forms)]
    where = ["setup", "loop"][(rnd // len(forms)) % 2]
    finding = None

    def place(lines_pre, lines_use):
        if s.get("whole"):
            # helper definitions / device declarations: always at top level, no main loop
            return "\n".join(HDR.splitlines() + lines_use + ['mon.write("@done")']) + "\n"
        L = HDR.splitlines() + lines_pre
        use = lines_use + ([s["after"]] if s.get("after") else []) + ['mon.write("@done")']
        if where == "setup" or s["kind"] in ("ultra-model", "servo-bounds"):
            L += use
        else:
            L += ["while True:"] + [indent(u) for u in use] + ["    sleep(5)"]
        return "\n".join(L) + "\n"

    if tr == "delit":
        P = place([], s["lit"].splitlines())
        Q = place([s["decl"]], s["use"].splitlines())
    elif tr == "delit-expr":
        P = place([], s["lit"].splitlines())
        Q = place([], s["expr"].splitlines())
        if s["kind"] == "const-arith" and any(op in s["expr"] for op in ("**",)):
            finding = "KF-pow"
    elif tr == "dead-branch":
        P = place([s["decl"]], s["use"].splitlines())
        Q = place([s["decl"], f"if {DEAD}:", indent(s["mut"])], s["use"].splitlines())
        if s.get("stale") in ("KF-stale-len",):
            finding = s["stale"]
    elif tr == "dead-loop":
        P = place([s["decl"]], s["use"].splitlines())
        Q = place([s["decl"], "for z in range(0):", indent(s["mut"])], s["use"].splitlines())
        if s.get("stale") in ("KF-stale-len",):
            finding = s["stale"]
    else:  # live-branch: the mutated program must equal the program written with the new literal
        P = place([], s["mut_lit"].splitlines())
        Q = place([s["decl"], f"if {LIVE}:", indent(s["mut"])], s["use"].splitlines())
        if s.get("stale") in ("KF-stale-flash-pattern", "KF-stale-glyph", "KF-stale-len-str"):
            finding = s["stale"]
    return P, Q, tr, s["kind"], finding, where


RAW = ("SER", "DELAY", "DW", "AW", "TONE", "NOTONE", "SERVO_WRITE", "SERVO_WRITEUS")


def raw_projection(events):
    out = []
    for t, kind, f in events:
        if kind in RAW:
            out.append((kind,) + tuple(f[:2] if kind == "SER" else f))
        elif kind == "LCD" and f[1] == "GLYPH":
            out.append(("GLYPH",) + tuple(f[2:]))
    return out


def run_pair(case):
    idx, sd, passes = case
    rng = rng_for(PROP, sd, idx)
    P, Q, tr, kind, finding, where = make_pair(rng, idx)
    tapes = {"A": {"14": [300, 500, 20]}, "P": {"15": [1160, 580]}}
    out = {"P": P, "Q": Q, "transformation": tr, "site": kind, "finding": finding, "where": where}
    res = {}
    with fw.Scratch() as wd:
        for name, src in (("P", P), ("Q", Q)):
            t = engine.transpile(src)
            r = {"transpile": t["status"], "exc": t.get("exc")}
            if t["status"] == "ok":
                r["cpp"] = t["cpp"]
                f = engine.firmware(t["cpp"], wd / name, passes=passes, tapes=tapes)
                r["fw_status"] = f["status"]
                r["diag"] = engine.first_diag_line(f.get("diag", ""))
                r["fw_raw"] = raw_projection(f["events"])
                r["fw_events"] = f["events"]
                py = engine.host_reference(src, wd / name, tapes=tapes, passes=passes)
                r["py_status"] = py["status"]
                r["py_exc"] = py.get("exc")
                r["py_events"] = py.get("events", [])
            res[name] = r
    p, q = res["P"], res["Q"]
    out["status"] = {n: {k: res[n].get(k) for k in ("transpile", "fw_status", "py_status", "exc", "py_exc", "diag")} for n in res}
    out["cppQ"] = q.get("cpp")
    problems = []
    if p["transpile"] != q["transpile"]:
        # rejecting one form is allowed (no firmware is produced): counted, not judged
        out["discard"] = f"accept/reject asymmetry: P {p['transpile']} ({p.get('exc')}) / P' {q['transpile']} ({q.get('exc')})"
    elif p["transpile"] == "ok":
        if p["fw_status"] != "ok" or q["fw_status"] != "ok":
            problems.append(("firmware", f"firmware status P={p['fw_status']} P'={q['fw_status']} {q.get('diag')}"))
        elif p["py_status"] != "ok" or q["py_status"] != "ok":
            out["discard"] = f"python: {p.get('py_exc')} / {q.get('py_exc')}"
        else:
            # python cannot tell P and P' apart
            keep = ("SER",) if kind == "ultra-model" else ("SER", "LVL", "SERVO", "PASS", "GLYPH")
            pm_p = trace.dedupe_levels(trace.py_model(p["py_events"], keep=keep))
            pm_q = trace.dedupe_levels(trace.py_model(q["py_events"], keep=keep))
            d0 = trace.compare(pm_p, pm_q)
            if d0:
                out["discard"] = f"generator: CPython distinguishes P and P' ({d0['fw']} vs {d0['py']})"
            else:
                if p["fw_raw"] != q["fw_raw"]:
                    i = next((i for i, (a, b) in enumerate(zip(p["fw_raw"], q["fw_raw"])) if a != b), min(len(p["fw_raw"]), len(q["fw_raw"])))
                    problems.append(("fw-pair", f"firmware of P and P' differ at event {i}: {p['fw_raw'][i:i + 1]} vs {q['fw_raw'][i:i + 1]}"))
                for name, r, pm in (("P", p, pm_p), ("P'", q, pm_q)):
                    timing = kind != "ultra-model"
                    fm = trace.dedupe_levels(trace.fw_model(r["fw_events"], keep=keep))
                    if not any(e["k"] == "PASS" for e in pm):
                        fm = [e for e in fm if e["k"] != "PASS"]
                    fm = [e for e in fm if not (e["k"] == "SERVO" and e["mode"] == "attach")]
                    pmx = [e for e in pm if not (e["k"] == "SERVO" and e["mode"] == "attach")]
                    d = trace.compare(fm, pmx, timing=timing)
                    if d:
                        problems.append(("fw-vs-python", f"{name}: firmware vs CPython: {d['why']} fw={d['fw']} py={d['py']}"))
                out["compared"] = len(pm_p) + len(pm_q)
    out["problems"] = problems
    return out


def main() -> int:
    rep = Report(PROP)
    t = tier()
    sd = seed()
    n = 2 * 5 * N_KINDS if t == "quick" else 2 * 5 * N_KINDS * 10
    for case, st, res in run_cases(run_pair, [(i, sd, 2) for i in range(n)]):
        if st != "ok":
            rep.inconclusive_because(f"pair {case[0]} failed: {res[-300:]}")
            continue
        label = f"{res['transformation']}/{res['site']}/{res['where']}"
        rep.count("pairs:" + res["transformation"])
        rep.count("site:" + res["site"])
        if res.get("discard"):
            rep.case(None, False)
            rep.count("discarded")
            if "generator" in res["discard"]:
                rep.inconclusive_because(f"{label}: {res['discard']}")
            continue
        rep.case(label + str(case[0]), res.get("compared", 0) > 0)
        rep.count("executions", 4)
        if res.get("compared", 0) > 0:
            rep.count("compared:" + res["site"])
        w = {"P.py": res["P"], "Pprime.py": res["Q"], "sketch.cpp": res.get("cppQ") or "", "detail.json": json.dumps({k: res.get(k) for k in ("transformation", "site", "problems", "status")}, indent=1, default=str)}
        for key, msg in res["problems"]:
            fid = res.get("finding")
            if fid and fid in rep.open_findings:
                rep.known(fid, f"{label}: {msg}", w)
            else:
                rep.violation(f"{label}: {msg}", w, key=f"{key}:{res['transformation']}:{res['site']}")
        if len(rep.samples) < 4 and case[0] % 17 == 0:
            rep.sample({"transformation": res["transformation"], "site": res["site"], "P_tail": res["P"][-250:], "Pprime_tail": res["Q"][-330:]})
    for k in sorted(c for c in rep.counters if c.startswith("site:")):
        if not rep.counters.get("compared:" + k[5:]):
            rep.inconclusive_because(f"fold site {k[5:]}: no pair reached the four-way comparison (all rejected or discarded)")
    witness.check_witnesses(rep)
    rep.rule = ("pairs (P, P') over 26 fold sites (a string bound to the same literal in every arm of an if/else and extended in a nested block, a global derived from a name changed earlier - alone or in a tuple assignment -, reset to the initial constant, single-pass loop with break, the same len() argument twice around a mutation, sleep, brightness, blink, len of str, len of list, flash pattern, glyph bitmap, RGB colour, fade duration/steps, "
                "ultrasonic model name, servo bounds, range count, arithmetic) x transformations {literal -> variable, literal -> name-free expression, mutation "
                "in a branch never taken at run time, mutation in a loop run 0 times, mutation in a branch always taken (vs the program written with the new "
                "literal)}, in setup() or the main loop; branch conditions read a scripted analog input so the folder cannot decide them. All four executions must "
                "agree: py(P)=py(P') (else the pair is discarded), fw(P)=fw(P') on raw events, fw=py on each side. non-trivial = four traces compared")
    return rep.finish(min_distinct=60)


if __name__ == "__main__":
    raise SystemExit(main())
