"""C14 - library deps, #includes and instantiated library classes always agree."""
from __future__ import annotations

import itertools
import json
import re

from .. import engine, fw
from ..common import Report, rng_for, run_cases, seed, tier, use_repo
from ..gen.corpus import HDR

PROP = "C14"
LIB_OF_HEADER = {"Servo.h": "Servo", "LiquidCrystal.h": "LiquidCrystal", "LiquidCrystal_I2C.h": "LiquidCrystal_I2C"}
CLASS_RE = re.compile(r"^(Servo|LiquidCrystal_I2C|LiquidCrystal)\s+\w+", re.M)
INC_RE = re.compile(r"^\s*#\s*include\s*<([^>]+)>", re.M)


def tail_comment(rng):
    """Trailing comments are free text: unbalanced brackets and quotes in them mean nothing."""
    if rng.random() < 0.75:
        return ""
    return "  " + rng.choice(["# backpack (PCF8574", "# pan [left", "# {todo", "# it's the \"big\" one", "# )", "# servo = Servo(", "# \\"])


def make_script(cfg, rng):
    n_servo_pre, n_servo_loop, n_par, n_i2c, noise, actions, main_loop = cfg
    L = [HDR]
    pin = [2]

    def nxt():
        pin[0] += 1
        return pin[0]

    names = []
    first_decl = len(L)
    for i in range(n_par):
        L.append(f"lcdp{i} = LCD(rs={nxt()}, en={nxt()}, d4={nxt()}, d5={nxt()}, d6={nxt()}, d7={nxt()}" + (f", backlight_pin={nxt()}" if rng.random() < 0.3 else "") + (f", rw={nxt()}" if rng.random() < 0.4 else "") + ")")
        names.append(("lcd", f"lcdp{i}"))
    for i in range(n_i2c):
        addr = rng.choice([str(0x20 + i), "0", "0x00", "0x27 - 39", hex(0x3F - i)])
        bl = f", backlight_pin={nxt()}" if rng.random() < 0.3 else ""   # a backlight pin does not make it a parallel display
        L.append(f"lcdi{i} = LCD(i2c_addr={addr}, cols={rng.choice([16, 20])}, rows={rng.choice([2, 4])}{bl})" + tail_comment(rng))
        names.append(("lcd", f"lcdi{i}"))
    for i in range(n_servo_pre):
        L.append(f"sv{i} = Servo({nxt()})" + tail_comment(rng))
        names.append(("servo", f"sv{i}"))
    if rng.random() < 0.5:
        # the library devices in any order (servo, display, servo, ...): a library needed twice is still requested once
        decls = L[first_decl:]
        rng.shuffle(decls)
        L[first_decl:] = decls
    if noise:
        L += [f"led = Led({nxt()})", f"rgb = RGBLed({nxt()}, {nxt()}, {nxt()})", f"mot = DCMotor({nxt()}, {nxt()}, {nxt()})",
              f"bz = Buzzer({nxt()})", f"btn = Button({nxt()})", "pot = Potentiometer(\"A0\")", f"us = Ultrasonic({nxt()}, {nxt()})"]
    body = []
    for i in range(n_servo_loop):
        body.append(f"svl{i} = Servo({nxt()})")
        names.append(("servo", f"svl{i}"))
    if actions:
        for kind, nm in names:
            if kind == "servo":
                body.append(f"{nm}.write({rng.randint(0, 180)})")
            else:
                body.append(f"{nm}.line(0, \"hi\")")
        if noise:
            body += ["led.toggle()", "mon.write(pot.read())"]
    body.append("sleep(10)")
    if main_loop or n_servo_loop:
        L.append("while True:" + tail_comment(rng))
        L += ["    " + b for b in body]
    else:
        L += body
    return "\n".join(L) + "\n"


PAR = "LCD(rs=12, en=11, d4=5, d5=4, d6=3, d7=2)"
REBIND = [  # (label, body, libraries the declared devices need, finding id or None)
    ("button->servo", "dev = Button(2)\ndev = Servo(9)\ndev.write(90)\n", {"Servo"}, None),
    ("i2c-lcd->servo", "dev = LCD(i2c_addr=39)\ndev.line(0, \"x\")\ndev = Servo(9)\ndev.write(90)\n", {"Servo", "LiquidCrystal_I2C"}, None),
    ("servo->parallel-lcd", f"dev = Servo(9)\ndev.write(5)\ndev = {PAR}\ndev.line(0, \"x\")\n", {"Servo", "LiquidCrystal"}, None),
    ("led->servo", "dev = Led(3)\ndev.on()\ndev = Servo(9)\ndev.write(10)\n", {"Servo"}, None),
    ("pot->servo", "dev = Potentiometer(\"A0\")\ndev = Servo(9)\ndev.write(10)\n", {"Servo"}, None),
    ("buzzer->parallel-lcd", f"dev = Buzzer(8)\ndev = {PAR}\ndev.line(0, \"x\")\n", {"LiquidCrystal"}, None),
    ("button->servo-in-loop", "dev = Button(2)\nwhile True:\n    dev = Servo(9)\n    dev.write(90)\n    sleep(5)\n", {"Servo"}, None),
    ("servo->servo", "a = Servo(9)\na = Servo(10)\na.write(5)\n", {"Servo"}, None),
    ("servo->button", "dev = Servo(9)\ndev.write(5)\ndev = Button(2)\n", {"Servo"}, None),
    ("two-names", f"a = Button(2)\nb = Servo(9)\nc = {PAR}\nb.write(1)\n", {"Servo", "LiquidCrystal"}, None),
    # names of library classes / headers that occur only in strings and comments; blanks before the parenthesis of a constructor
    ("names-in-text", "led = Led(3)\nmon.write(\"No Servo attached\")\ntitle = \"LiquidCrystal_I2C demo\"\nmon.write(title)  # LCD( Servo(\nmon.write(\"#include <Servo.h>\")\n", set(), None),
    ("lcd-text-mentions-servo", f"c = {PAR}\nc.line(0, \"Servo : off\")\nmon.write(\"LiquidCrystal_I2C?\")\n", {"LiquidCrystal"}, None),
    ("spaced-ctors", "dev = Servo (9)\ndev.write (90)\nb = LCD (i2c_addr=39)\nb.line (0, \"x\")\n", {"Servo", "LiquidCrystal_I2C"}, None),
    ("servo-then-lcd-after-other-devices", f"bz = Buzzer(8)\nsv = Servo(9)\nled = Led(3)\nc = {PAR}\nsv.write(1)\n", {"Servo", "LiquidCrystal"}, None),
    ("parallel-lcd->i2c-lcd", f"dev = {PAR}\ndev = LCD(i2c_addr=39)\ndev.line(0, \"x\")\n", {"LiquidCrystal", "LiquidCrystal_I2C"}, "KF-lcd-rebind-other-interface"),
    ("i2c-lcd->parallel-lcd", f"dev = LCD(i2c_addr=39)\ndev = {PAR}\ndev.line(0, \"x\")\n", {"LiquidCrystal", "LiquidCrystal_I2C"}, "KF-lcd-rebind-other-interface"),
]


def run_rebind(case):
    label, body, want, fid = case
    script = HDR + body
    out = {"script": script, "label": label, "want": sorted(want), "finding": fid}
    try:
        libs, incs, lib_incs, classes, cpp = views(script)
    except (ValueError, SyntaxError) as e:
        out["rejected"] = str(e)
        return out
    out.update(libs=libs, lib_incs=lib_incs, classes=classes, cpp=cpp, ini_libs=ini_libs(libs, cpp, len(label)))
    return out


UNSTABLE = {}


def views(script):
    use_repo()
    import Reduino
    from Reduino.transpile.emitter import emit
    from Reduino.transpile.parser import parse

    program = parse(script)
    libs = Reduino._collect_required_libraries(program)
    cpp = emit(program)
    # the three views are functions of the script: asking again (after the sketch was emitted, or emitting twice) changes nothing
    libs_again = Reduino._collect_required_libraries(program)
    cpp_again = emit(program)
    UNSTABLE.pop("msg", None)
    if libs_again != libs or cpp_again != cpp:
        UNSTABLE["msg"] = (f"views change when taken a second time from the same Program: lib_deps {libs} -> {libs_again}; "
                           f"sketch text {'unchanged' if cpp_again == cpp else 'differs'}")
    incs = INC_RE.findall(cpp)
    lib_incs = [LIB_OF_HEADER[h] for h in incs if h in LIB_OF_HEADER]
    classes = CLASS_RE.findall(cpp)
    return libs, incs, lib_incs, classes, cpp


PLATFORMS = [("atmelavr", "uno"), ("atmelmegaavr", "nano_every"), ("atmelavr", "leonardo"), ("atmelmegaavr", "uno_wifi_rev2"), ("atmelavr", "megaatmega2560"),
             ("atmelavr", "digispark-tiny")]


def ini_libs(libs, cpp, which=0):
    """lib_deps as written by write_project and read back with configparser."""
    import configparser
    import tempfile
    from pathlib import Path

    from Reduino.toolchain.pio import write_project

    with tempfile.TemporaryDirectory(prefix="reduverif-c14-") as td:
        platform, board = PLATFORMS[which % len(PLATFORMS)]
        write_project(Path(td), cpp, "COM3", platform=platform, board=board, lib_deps=libs)
        cp = configparser.ConfigParser(interpolation=None)
        cp.read(Path(td) / "platformio.ini")
        sec = cp[cp.sections()[0]]
        return [x.strip() for x in sec.get("lib_deps", "").splitlines() if x.strip()]


def run_case(case):
    cfg, sd, idx, link = case
    rng = rng_for(PROP, sd, idx)
    script = make_script(cfg, rng)
    out = {"script": script, "cfg": cfg}
    try:
        libs, incs, lib_incs, classes, cpp = views(script)
    except (ValueError, SyntaxError) as e:
        out["rejected"] = str(e)
        return out
    out.update(libs=libs, incs=incs, lib_incs=lib_incs, classes=classes, cpp=cpp, unstable=UNSTABLE.get("msg"))
    out["ini_libs"] = ini_libs(libs, cpp, idx)
    out["platform"] = PLATFORMS[idx % len(PLATFORMS)]
    if link:
        with fw.Scratch() as wd:
            r = engine.firmware(cpp, wd, passes=2)
            out["fw_status"] = r["status"]
            out["diag"] = engine.first_diag_line(r.get("diag", "")) if r["status"] == "uncompilable" else None
            out["lib_events"] = sorted({e[1] for e in r["events"] if e[1] in ("SERVO_ATTACH", "LCD")})
    return out


def main() -> int:
    rep = Report(PROP)
    t = tier()
    sd = seed()
    cfgs = []
    for n_servo_pre, n_servo_loop, n_par, n_i2c in itertools.product(range(3), range(3), range(3), range(3)):
        for noise in (False, True):
            for actions in (False, True):
                cfgs.append((n_servo_pre, n_servo_loop, n_par, n_i2c, noise, actions, True))
    cfgs += [(a, 0, b, c, n, True, False) for a in range(3) for b in range(2) for c in range(2) for n in (False, True)]
    n_link = 60 if t == "quick" else len(cfgs)
    step = max(1, len(cfgs) // n_link)
    cases = [(cfg, sd, i, (i % step == 0) if t == "quick" else True) for i, cfg in enumerate(cfgs)]
    for case, st, out in run_cases(run_case, cases):
        if st != "ok":
            rep.inconclusive_because(f"case failed: {out[-300:]}")
            continue
        cfg = out["cfg"]
        if "rejected" in out:
            rep.case(None, False)
            rep.count("rejected")
            continue
        want = set()
        if cfg[0] + cfg[1] > 0:
            want.add("Servo")
        if cfg[2] > 0:
            want.add("LiquidCrystal")
        if cfg[3] > 0:
            want.add("LiquidCrystal_I2C")
        L, I, K = out["libs"], out["lib_incs"], out["classes"]
        rep.case(f"{cfg}", bool(want))
        rep.count("set_comparisons")
        w = {"script.py": out["script"], "sketch.cpp": out["cpp"], "detail.json": json.dumps(
            {"lib_deps": L, "includes": out["incs"], "classes_instantiated": K, "devices_declared": sorted(want)}, indent=1)}
        problems = []
        if out.get("unstable"):
            problems.append(("views-unstable", out["unstable"]))
        if len(L) != len(set(L)):
            problems.append(("dup-lib", f"library requested twice: {L}"))
        if len(out["incs"]) != len(set(out["incs"])):
            problems.append(("dup-include", f"header included twice: {out['incs']}"))
        if set(L) != want:
            problems.append(("libs-vs-devices", f"lib_deps {sorted(L)} but the script declares devices needing {sorted(want)}"))
        if sorted(out.get("ini_libs", L)) != sorted(want):
            problems.append(("ini-vs-devices", f"platformio.ini lib_deps {out.get('ini_libs')} but the script declares devices needing {sorted(want)}"))
        if set(I) != want:
            problems.append(("includes-vs-devices", f"library headers {sorted(I)} but the script declares devices needing {sorted(want)}"))
        if set(K) != want:
            problems.append(("classes-vs-devices", f"library classes instantiated {sorted(set(K))} but devices need {sorted(want)}"))
        if ("LiquidCrystal_I2C.h" in out["incs"]) != ("Wire.h" in out["incs"]):
            rep.count("wire_h_not_paired_with_i2c_header")   # not part of the statement (the I2C library may include Wire.h itself)
        n_servo_objs = sum(1 for k in K if k == "Servo")
        if n_servo_objs != cfg[0] + cfg[1]:
            problems.append(("servo-count", f"{n_servo_objs} Servo objects for {cfg[0] + cfg[1]} declared servos"))
        if "fw_status" in out:
            rep.count("linked_and_run")
            if out["fw_status"] == "uncompilable":
                problems.append(("uncompilable", f"sketch does not compile with only the included libraries visible: {out['diag']}"))
            elif out["fw_status"] != "ok":
                problems.append(("fw-" + out["fw_status"], f"firmware run status {out['fw_status']}"))
        for key, msg in problems:
            rep.violation(msg, w, key=key)
        if len(rep.samples) < 3 and want and len(want) >= 2:
            rep.sample({"devices": cfg, "lib_deps": L, "includes": out["incs"], "classes": K})
    # ---- one name re-bound to devices of different kinds: every declared library device still needs its library
    for case, st, out in run_cases(run_rebind, REBIND):
        if st != "ok":
            rep.inconclusive_because(f"rebind case failed: {out[-300:]}")
            continue
        rep.count("rebind_cases")
        if "rejected" in out:
            rep.count("rebind_rejected")
            continue
        rep.case("rebind:" + out["label"], True)
        want = set(out["want"])
        w = {"script.py": out["script"], "sketch.cpp": out["cpp"]}
        for view, got in (("lib_deps", out["libs"]), ("platformio.ini lib_deps", out["ini_libs"]), ("library headers", out["lib_incs"]), ("library classes", out["classes"])):
            if set(got) != want:
                msg = f"{out['label']}: {view} {sorted(set(got))} but the declared devices need {sorted(want)}"
                if out["finding"] and out["finding"] in rep.open_findings:
                    rep.known(out["finding"], msg, w)
                else:
                    rep.violation(msg, w, key="rebind:" + view)
    rep.rule = ("all combinations of 0-2 servos before the main loop x 0-2 servos at the top of its body x 0-2 parallel LCDs x 0-2 I2C LCDs x "
                "{with, without} every other device kind x {with, without} actions (+ scripts without a main loop); the three views (lib_deps, "
                "#include lines, library classes instantiated at global scope) compared as sets with the declared devices; a sample (quick) / "
                "all (thorough) compiled with only the included libraries' headers visible and run. non-trivial = at least one library needed")
    return rep.finish(min_distinct=50, exhaustive=True)


if __name__ == "__main__":
    raise SystemExit(main())
