"""Regenerate MANIFEST.json from the table below:  python -m vlib.manifest"""
import json
from pathlib import Path

VERIF = Path(__file__).resolve().parent.parent

CHECKS = {
    "C01": ("exploration", "differential trace monitor (firmware under ASan/UBSan vs CPython reference)", "differential",
            "held on K generated programs whose firmware and CPython traces were compared event by event for several loop-pass counts; not a proof",
            "mock Arduino core; CPython + host modules as oracle; ints within +-10^4; clean-profile grammar excludes constructs covered by open known findings (witnesses re-run)"),
    "C08": ("exploration", "oracle monitor: inspect.signature.bind vs transpiler IR fields over all call shapes", "binding",
            "every calling convention Python accepts (all positional/keyword splits, keyword permutations, omitted defaults) is run through the parser and compared with Signature.bind; exhaustive over shapes in the thorough tier",
            "field<->parameter table mirrors transpile/ast.py; sentinel literal values only"),
    "C10": ("exploration", "output-digest equality monitor across hash seeds, call histories, thread interleavings and a one-script-per-fresh-interpreter reference; module-state fingerprint around every call", "determinism",
            "sha256 of emitted text compared across fresh processes with different PYTHONHASHSEED, shuffled in-process histories and 8 racing threads; module-level state fingerprinted around each call",
            "thread schedules are GIL switch points; corpus generated from the seed"),
    "C12": ("fault_enumeration", "ordered effect-log monitor with fault injection at every step of target(), same-path and repeat-call histories, device-derived library oracle", "target-faults",
            "product of pair validity x script kind x upload flag x fault point, each run in a child process with recording fakes; the effect log is checked against the ordered-effects specification",
            "subprocess.run / mkdtemp / Path.write_text / Path.mkdir are the effect channels; no real pio is reachable (PATH emptied)"),
    "C13": ("exploration", "set-membership oracle over the registry matrix + configparser read-back + audit hook", "registry",
            "validation matrix exhaustive over (platforms + near misses) x (all registered boards + near misses); random projects read back and byte-compared",
            "ports without edge whitespace/newlines; configparser(interpolation=None) is the standard INI parser"),
    "C11": ("exploration", "sys.addaudithook event monitor + canaries + CPU-time budget + exception-type monitor in child processes", "audit",
            "every input (supported scripts, position x hostile payload product, arbitrary Python, noise) is transpiled under an audit hook with a whitelist of compile-to-AST only; canary files, environment, module state and CPU budget are checked after each call",
            "audit events are the observation channel for file/process/network/import/exec activity; CPU seconds (not wall time) decide promptness"),
    "C19": ("exploration", "icontract class invariants on the real classes + atomicity snapshots + sleep ledger under random operation histories", "contracts",
            "the statement's clauses are asserted after every public call of random histories with in-range, boundary, out-of-range and odd scalar arguments; raising calls are compared against a pre-call snapshot",
            "single-threaded per object; NaN excluded; sleep observed through the package-level sleep indirection"),
    "C20": ("exploration", "reference-model monitors (dict pin memory, exact rational affine map, edge counter, fake serial backend) in lock-step with the real functions", "contracts",
            "small executable models compared with the real helpers on random interleavings and value grids",
            "Core's module-global dicts are cleared (and the clearing asserted) before each history"),
    "C07": ("exploration", "env-guarded skip-log hook monitor + metamorphic re-layout (byte equality of emitted text) + firmware differential on re-laid-out programs", "layout",
            "every line the parser skips is reported by the REDUINO_VERIF hook and classified against the allowed set; re-layouts that Python's ast sees as the same program must give byte-identical firmware",
            "hook commit reports all silent-skip sites; ast.dump equality is the oracle that two layouts mean the same"),
    "C14": ("exploration", "three-way set-agreement monitor (lib_deps / #include / instantiated classes) + compile with only the included libraries visible", "differential",
            "all combinations of 0-2 servos (before / inside the main loop), 0-2 parallel and 0-2 I2C LCDs with and without other devices and actions are enumerated; a sample (quick) or all (thorough) are compiled and run",
            "per-library mock headers live in separate include directories passed only when the sketch includes them"),
    "C02": ("exploration", "type-witness monitor (sys.settrace types per name vs emitted C++ declarations) + differential trace monitor", "differential",
            "every declaration of generated type-stable programs must be able to hold the Python types a tracer saw for that name; printed values are compared as in C01",
            "an int held in a C float is not a narrowing; witnesses of open findings re-run"),
    "C03": ("exploration", "metamorphic 4-way trace equality (P / P' on firmware and CPython)", "differential",
            "pairs that Python cannot tell apart (literal vs variable vs name-free expression; dead and live mutations) over 26 fold sites (device arguments, len/flash-pattern/glyph tables, loop counts, generated constant expressions, values derived after a change, resets, if/else joins) are executed on both sides",
            "branch conditions read a scripted analog input so that the folder cannot decide them; accept/reject asymmetry is not judged"),
    "C04": ("exploration", "per-pin level/time trace monitor vs instrumented host classes + clamp monitor on raw pin events", "differential",
            "random in-range actuator histories are compared event by event with the host classes; out-of-range histories are checked by a range monitor on analogWrite/servo events",
            "tolerances are the statement's: motor duty +-1, servo +-1 at ties, < 1 ms per fractional delay"),
    "C05": ("exploration", "temporal monitors over the firmware trace (unique statement markers, configure-before-use) + CPython comparison for N = 0..3", "differential",
            "markers exactly once / once per pass in source order; pinMode/Serial.begin/attach/LCD begin before first use; button sampled once per pass first; main-loop break rejected",
            "scripts declaring a device inside the loop body are not compared with CPython (fresh Python object per pass vs one hoisted device)"),
    "C06": ("exploration", "compiler-as-oracle monitor (g++ AVR-like front end, no C++ std headers) + structure monitor + string-escape differential", "differential",
            "every accepted script of the generators (core language, devices, lists, polymorphic helpers, collision/context corpus, the same call twice per block, 140 boundary-value calls judged when the host classes run them) is compiled; a sample is linked against the mock libraries; string-literal fuzz is run and compared with CPython",
            "g++ -std=gnu++11 -fpermissive -nostdinc++ approximates avr-gcc; exceptions left enabled"),
    "C09": ("exploration", "ASan+UBSan (explore then gate runs) + valgrind memcheck sample + per-pass live-heap monitor vs CPython live-data measure", "differential",
            "list/str-heavy programs run for 6 passes under the sanitizers; heap bytes after each pass must not grow while Python's live data is constant",
            "red-zone sanitizers: 'no report on these executions', not memory safety; __sanitizer_get_current_allocated_bytes is the heap ledger"),
    "C15": ("exploration", "trace monitors with scripted digitalRead/analogRead/pulseIn tapes and a virtual clock + host Button replay", "differential",
            "reads per pass, on_click vs rising edges, is_pressed vs sample, analogRead freshness, trigger count/spacing, retry and fallback value are checked on the firmware log",
            "60 ms rule judged between triggers whose predecessor happened after the first millisecond since reset; the mock core's unsigned long is 32 bits wide and clocks start near the 2^32 ms roll-over in a third of the cases"),
    "C16": ("exploration", "tone-protocol state machine replayed over tone/noTone/delay events + pinned score table", "differential",
            "every buzzer call of random histories (literal and run-time, incl. zero/negative arguments) is judged between per-call serial markers",
            "score table pinned in the check; host Buzzer is a no-op stub, so the oracle is the specification"),
    "C17": ("exploration", "simulated HD44780 cell matrix (mock LiquidCrystal*) vs host LCD.buffer after every call", "differential",
            "random LCD sizes/wirings and call sequences; cell matrix, backlight level/flag and CGRAM compared with the host object after each call",
            "ASCII text; in-range row/column; inexact progress bars may differ by one cell and are wiped before the next comparison"),
    "C18": ("exploration", "per-pass frame/time monitor on the firmware + icontract postconditions on host LCD.animate/tick under random tick schedules", "differential",
            "no delay in the injected tick, frames inside the row, static rows untouched, pacing >= speed_ms, non-looping stop within 2(len+cols)+4 steps, looping still active after >= 3B passes",
            "unbounded 'never stops' restated as bounded progress; 32-bit millis() roll-over inside the run; one animation per row"),
}

NOT_YET = {}


def build():
    props = [json.loads(l) for l in (VERIF / "properties.jsonl").read_text().splitlines() if l.strip()]
    checks = []
    na = []
    for p in props:
        pid = p["id"]
        if pid in CHECKS:
            level, technique, engine, text, note = CHECKS[pid]
            checks.append({
                "property_id": pid,
                "quick_cmd": f"./check {pid} --tier quick",
                "thorough_cmd": f"./check {pid} --tier thorough",
                "evidence_file": f"evidence/{pid}.json",
                "replay_cmd_template": f"./check {pid} --replay {{path}}",
                "engine": engine,
                "level_claimed": {"category": level, "text": text, "design_ref": f"DESIGN.md section 3 ({pid})"},
                "level_note": note,
                "technique": technique,
            })
        else:
            na.append({"property_id": pid, "reason": NOT_YET.get(pid, "check not built yet in this session (planned per DESIGN.md); not claimed until it runs")})
    commits = []
    fp = VERIF / "hook_commits.txt"
    if fp.exists():
        commits = [l.strip() for l in fp.read_text().splitlines() if l.strip()]
    m = {
        "version": 1,
        "setup_cmd": "./setup.sh",
        "hooks": {
            "guard": "REDUINO_VERIF",
            "enable": "checks export REDUINO_VERIF=1 before importing Reduino from /repo/src (pure Python; nothing to rebuild)",
            "baseline_off_cmd": "cd /repo && /venv/bin/python -m pytest -ra -q -p no:cacheprovider --timeout=900 --continue-on-collection-errors",
            "source_commits": commits,
            "add_only": True,
        },
        "engines": [
            {"name": "differential", "path": "vlib/engine.py", "serves_properties": ["C01", "C02", "C03", "C04", "C05", "C06", "C07", "C09", "C14", "C15", "C16", "C17", "C18"],
             "kind_free_text": "emitted C++ compiled against a mock Arduino core (vlib/mockcore) under ASan+UBSan with a logical step budget, run with scripted inputs and a virtual clock; event trace compared with a CPython run of the same script against the instrumented host modules (vlib/hostrun.py)"},
            {"name": "contracts", "path": "vlib/checks", "serves_properties": ["C19", "C20", "C18"], "kind_free_text": "icontract invariants / reference-model monitors on the real host classes under random operation histories"},
            {"name": "audit", "path": "vlib/checks", "serves_properties": ["C11", "C12", "C13"], "kind_free_text": "sys.addaudithook + recording fakes in child processes, fault injection"},
        ],
        "checks": checks,
        "not_applicable": na,
        "notes": "All checks: ./check <id> [--tier quick|thorough]; exit 0 held / 1 VIOLATION / 2 INCONCLUSIVE. Known findings: known_findings.json (never written at run time).",
    }
    (VERIF / "MANIFEST.json").write_text(json.dumps(m, indent=1) + "\n")
    return m


if __name__ == "__main__":
    m = build()
    print("checks:", [c["property_id"] for c in m["checks"]], "not_applicable:", len(m["not_applicable"]))
