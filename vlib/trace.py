"""Event normalisation and comparators for firmware vs. reference traces."""
from __future__ import annotations

import re

_NUM_RE = re.compile(r"(?<![\d.])-?\d+(?:\.\d+)?(?:[eE][+-]?\d+)?")


def unesc(s: str) -> str:
    out = []
    i = 0
    while i < len(s):
        c = s[i]
        if c == "\\" and i + 1 < len(s):
            n = s[i + 1]
            if n == "n":
                out.append("\n"); i += 2; continue
            if n == "t":
                out.append("\t"); i += 2; continue
            if n == "r":
                out.append("\r"); i += 2; continue
            if n == "\\":
                out.append("\\"); i += 2; continue
            if n == "x" and i + 3 < len(s):
                out.append(chr(int(s[i + 2:i + 4], 16))); i += 4; continue
        out.append(c)
        i += 1
    return "".join(out)


def fw_model(events, *, keep=("SER", "LVL", "SERVO", "PASS")):
    """Project a firmware event list to the comparison alphabet.
    Returns list of dicts {k, key, v, t (ms float), extra}."""
    out = []
    for t_us, kind, f in events:
        t = t_us / 1000.0
        if kind == "SER":
            text = unesc(f[0]) if f else ""
            if any(ord(c) > 127 for c in text):
                # the log carries raw bytes (\xNN); the sketch source is UTF-8
                try:
                    text = text.encode("latin-1").decode("utf-8")
                except (UnicodeError, ValueError):
                    pass
            num = None
            if len(f) > 1 and f[1] != "-":
                try:
                    num = float(f[1])
                except ValueError:
                    num = None
            out.append({"k": "SER", "text": text, "num": num, "t": t, "nobegin": "NOBEGIN" in f[2:]})
        elif kind == "DW":
            out.append({"k": "LVL", "pin": int(f[0]), "v": 255 if int(f[1]) else 0, "t": t, "raw": "DW"})
        elif kind == "AW":
            out.append({"k": "LVL", "pin": int(f[0]), "v": int(f[1]), "t": t, "raw": "AW"})
        elif kind == "SERVO_WRITE":
            out.append({"k": "SERVO", "pin": int(f[1]), "mode": "angle", "v": float(f[2]), "t": t})
        elif kind == "SERVO_WRITEUS":
            if out and out[-1].get("mode") == "attach" and out[-1].get("pin") == int(f[1]) and not out[-1].get("parked"):
                out[-1]["parked"] = True  # the emitter parks the servo at min pulse right after attach: part of configuration
                continue
            out.append({"k": "SERVO", "pin": int(f[1]), "mode": "us", "v": float(f[2]), "t": t})
        elif kind == "SERVO_ATTACH":
            out.append({"k": "SERVO", "pin": int(f[1]), "mode": "attach", "v": float(f[2]), "t": t})
        elif kind == "PASS":
            out.append({"k": "PASS", "n": int(f[0]), "t": t})
        elif kind == "LCD" and len(f) > 3 and f[1] == "GLYPH":
            out.append({"k": "GLYPH", "lcd": int(f[0]), "slot": int(f[2]), "rows": [int(x) for x in f[3].split(",")], "t": t})
        elif kind == "END":
            out.append({"k": "END", "t": t})
    return [e for e in out if e["k"] in keep or e["k"] == "END"]


def py_model(events, *, keep=("SER", "LVL", "SERVO", "PASS"), final_ms=None):
    out = []
    t = 0.0
    nfrac = 0
    for e in events:
        kind = e[0]
        if kind == "DELAY":
            d = float(e[1])
            if d != int(d):
                nfrac += 1
            t += d
            continue
        if kind == "SER":
            out.append({"k": "SER", "text": e[1], "num": e[2], "t": t, "nfrac": nfrac})
        elif kind == "LVL":
            out.append({"k": "LVL", "pin": e[1], "v": e[2], "t": t, "nfrac": nfrac})
        elif kind == "SERVO":
            out.append({"k": "SERVO", "pin": e[1], "mode": e[2], "v": e[3], "t": t, "nfrac": nfrac})
        elif kind == "PASS":
            out.append({"k": "PASS", "n": e[1], "t": t, "nfrac": nfrac})
        elif kind == "GLYPH":
            out.append({"k": "GLYPH", "lcd": e[1], "slot": e[2], "rows": list(e[3]), "t": t, "nfrac": nfrac})
    out.append({"k": "END", "t": t if final_ms is None else final_ms, "nfrac": nfrac})
    return [e for e in out if e["k"] in keep or e["k"] == "END"]


def after_marker(model, marker: str):
    """Events after the serial line `marker` (None when the marker is absent)."""
    for i, e in enumerate(model):
        if e["k"] == "SER" and e["text"] == marker:
            return model[i + 1:]
    return None


def dedupe_levels(model, *, no_dedupe_pins=frozenset()):
    """Drop pin writes that do not change the pin's level (initial level 0)."""
    level = {}
    out = []
    for e in model:
        if e["k"] == "LVL" and e["pin"] not in no_dedupe_pins:
            prev = level.get(e["pin"], 0)
            if e["v"] == prev:
                continue
            level[e["pin"]] = e["v"]
        out.append(e)
    return out


def _tokens(s: str):
    pos = 0
    out = []
    for m in _NUM_RE.finditer(s):
        if m.start() > pos:
            out.append(("t", s[pos:m.start()]))
        out.append(("n", m.group(0)))
        pos = m.end()
    if pos < len(s):
        out.append(("t", s[pos:]))
    return out


def num_close(a: float, b: float, *, coarse: bool) -> bool:
    if a == b:
        return True
    tol = 1e-5 * max(1.0, abs(a), abs(b))
    if coarse:
        tol += 0.0051
    return abs(a - b) <= tol


def ser_equal(fw: dict, py: dict) -> bool:
    ft, pt = fw["text"], py["text"]
    if ft == pt:
        return True
    if fw.get("num") is not None and py.get("num") is not None:
        return num_close(fw["num"], py["num"], coarse=False)
    a, b = _tokens(ft), _tokens(pt)
    if len(a) != len(b):
        return False
    for (ka, va), (kb, vb) in zip(a, b):
        if ka != kb:
            return False
        if ka == "t":
            if va != vb:
                return False
        else:
            if va == vb:
                continue
            try:
                fa, fb = float(va), float(vb)
            except ValueError:
                return False
            if "." not in va and "." not in vb and "e" not in va.lower() and "e" not in vb.lower():
                return False  # two different integers
            if not num_close(fa, fb, coarse=True):
                return False
    return True


def describe(e: dict | None) -> str:
    if e is None:
        return "<end of trace>"
    k = e["k"]
    if k == "SER":
        return f"SER {e['text']!r} @{e['t']:.3f}ms"
    if k == "LVL":
        return f"LVL pin{e['pin']}={e['v']} @{e['t']:.3f}ms"
    if k == "SERVO":
        return f"SERVO pin{e['pin']} {e['mode']}={e['v']} @{e['t']:.3f}ms"
    if k == "PASS":
        return f"PASS {e['n']} @{e['t']:.3f}ms"
    if k == "GLYPH":
        return f"GLYPH lcd{e['lcd']} slot{e['slot']}={e['rows']} @{e['t']:.3f}ms"
    return f"{k} @{e['t']:.3f}ms"


def compare(fw, py, *, timing: bool = True, tol_pins=frozenset(), servo_tol: float = 0.5 + 1e-6,
            ignore_pass: bool = False, time_slack_ms: float = 0.0):
    """Compare two models event by event. Returns None when equal, else a divergence dict."""
    if ignore_pass:
        fw = [e for e in fw if e["k"] != "PASS"]
        py = [e for e in py if e["k"] != "PASS"]
    i = j = 0
    fw_prev, py_prev = {}, {}

    def small_step(e, prev):
        return e["k"] == "LVL" and e["pin"] in tol_pins and abs(e["v"] - prev.get(e["pin"], 0)) <= 1

    while i < len(fw) or j < len(py):
        a = fw[i] if i < len(fw) else None
        b = py[j] if j < len(py) else None
        ok = False
        why = ""
        if a is not None and b is not None and a["k"] == b["k"]:
            k = a["k"]
            if k == "SER":
                ok = ser_equal(a, b)
                why = "serial text differs"
                if ok and a.get("nobegin"):
                    # the line was printed before any Serial.begin(): on hardware nothing is transmitted
                    ok = False
                    why = "serial line printed before Serial.begin()"
            elif k == "LVL":
                if a["pin"] == b["pin"]:
                    tol = 1 if a["pin"] in tol_pins else 0
                    try:
                        ok = abs(float(a["v"]) - float(b["v"])) <= tol
                    except (TypeError, ValueError):
                        ok = False
                    why = "pin level differs"
                else:
                    why = "different pin written"
            elif k == "SERVO":
                ok = a["pin"] == b["pin"] and a["mode"] == b["mode"]
                if ok and a["mode"] != "attach":
                    ok = abs(a["v"] - b["v"]) <= servo_tol + 0.5
                why = "servo command differs"
            elif k == "PASS":
                ok = a["n"] == b["n"]
                why = "loop pass boundary differs"
            elif k == "GLYPH":
                ok = (a["lcd"], a["slot"], a["rows"]) == (b["lcd"], b["slot"], b["rows"])
                why = "glyph bitmap differs"
            elif k == "END":
                ok = True
            if ok and timing:
                allowed = b.get("nfrac", 0) * 1.0 + 1e-6 + time_slack_ms
                if abs(a["t"] - b["t"]) > allowed:
                    ok = False
                    why = f"virtual time differs (fw {a['t']:.3f} ms, py {b['t']:.3f} ms, allowed {allowed:.3f})"
        else:
            why = "event kind differs"
        if ok:
            if a["k"] == "LVL":
                fw_prev[a["pin"]] = a["v"]
                py_prev[b["pin"]] = b["v"]
            i += 1
            j += 1
            continue
        # tolerance rescue: a +-1 change on a tolerant pin may exist on one side only
        if a is not None and small_step(a, fw_prev):
            fw_prev[a["pin"]] = a["v"]
            i += 1
            continue
        if b is not None and small_step(b, py_prev):
            py_prev[b["pin"]] = b["v"]
            j += 1
            continue
        return {
            "why": why or "trace length differs",
            "index_fw": i, "index_py": j,
            "fw": describe(a), "py": describe(b),
            "fw_context": [describe(e) for e in fw[max(0, i - 4):i + 3]],
            "py_context": [describe(e) for e in py[max(0, j - 4):j + 3]],
        }
    return None
