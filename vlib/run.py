"""Entry point: python -m vlib.run <Cxx> [--tier quick|thorough] [--replay dir]"""
from __future__ import annotations

import importlib
import os
import sys


def main(argv):
    if not argv:
        print("usage: check <property-id> [--tier quick|thorough] [--replay dir]")
        return 64
    prop = argv[0]
    args = argv[1:]
    replay = None
    i = 0
    while i < len(args):
        if args[i] == "--tier" and i + 1 < len(args):
            os.environ["VERIF_TIER"] = args[i + 1]
            i += 2
        elif args[i] == "--replay" and i + 1 < len(args):
            replay = args[i + 1]
            i += 2
        elif args[i] == "--seed" and i + 1 < len(args):
            os.environ["VERIF_SEED"] = args[i + 1]
            i += 2
        else:
            i += 1
    mod = importlib.import_module(f"vlib.checks.{prop}")
    if replay:
        return mod.replay(replay) if hasattr(mod, "replay") else 64
    return mod.main()


if __name__ == "__main__":
    sys.exit(main(sys.argv[1:]))
