"""Stage B: re-run the witness of every open known finding whose primary property is being checked."""
from __future__ import annotations

import json
import re

from . import engine
from .common import VERIF, run_cases


def symptom(res: dict) -> dict:
    out = {"outcome": res["outcome"]}
    if res["outcome"] == "diverged":
        d = res["divergence"]
        out["why"] = d["why"].split(" (")[0]
        out["fw"] = d["fw"].split(" @")[0]
        out["py"] = d["py"].split(" @")[0]
    elif res["outcome"] == "uncompilable":
        out["diag"] = re.sub(r"^\S*sketch\.cpp:\d+:\d+:\s*", "", res.get("diag") or "")[:200]
    elif res["outcome"] in ("rejected", "internal", "py-undefined"):
        out["exc"] = (res.get("exc") or "")[:160]
    return out


def matches(sym: dict, expect: dict) -> bool:
    if sym["outcome"] != expect.get("outcome"):
        return False
    for k in ("fw", "py"):
        if k in expect and sym.get(k) != expect[k]:
            return False
    if "diag_contains" in expect and expect["diag_contains"] not in sym.get("diag", ""):
        return False
    return True


def _run(finding: dict):
    script = (VERIF / finding["witness"]).read_text()
    res = engine.differential(script, passes=int(finding.get("passes", 2)), tapes=finding.get("tapes"),
                              hazards=True, **({"keep": tuple(finding["keep"])} if finding.get("keep") else {}))
    return symptom(res), script, res.get("cpp")


def check_witnesses(report, findings=None) -> None:
    """For each open primary finding: reproduces as recorded -> KNOWN-FINDING; passes -> silent;
    fails differently -> violation (a different violation of the same property)."""
    findings = report.primary_findings if findings is None else findings
    findings = [f for f in findings if f.get("witness")]
    for f, st, out in run_cases(_run, findings):
        report.count("witnesses_run")
        if st != "ok":
            report.inconclusive_because(f"witness {f['id']} could not be run: {out[-200:]}")
            continue
        sym, script, cpp = out
        if sym["outcome"] == "equal":
            report.count("witnesses_now_passing")
            print(f"note: witness of {f['id']} no longer reproduces (defect gone?)")
            continue
        if matches(sym, f["expect"]):
            report.known(f["id"], f"{f['mechanism'][:110]} [witness {f['witness']}: {json.dumps(sym)[:160]}]")
        else:
            report.violation(
                f"witness of {f['id']} fails with a different symptom: expected {json.dumps(f['expect'])}, "
                f"observed {json.dumps(sym)}",
                {"script.py": script, "sketch.cpp": cpp or "", "finding.json": json.dumps(f, indent=1)},
                key=f"witness:{f['id']}")
