"""Reference execution: run a DSL script in CPython against the real host-side Reduino modules,
instrumented from the outside, and record the observable event stream.

Usage (child process):  python hostrun.py <config.json> <out.json>
config: {"script": str, "tapes": {"D": {pin: [..]}, "A": {...}, "P": {...}, "S": [..]}, "passes": int,
         "hazards": bool, "trace_types": bool, "line_budget": int}
"""
from __future__ import annotations

import ast
import io
import json
import math
import os
import sys
import traceback

sys.path.insert(0, os.path.dirname(os.path.dirname(os.path.abspath(__file__))))

SCRIPT_NAME = "<reduino-script>"


class StopScript(BaseException):
    pass


class BudgetExceeded(BaseException):
    pass


def norm_pin(pin):
    if isinstance(pin, bool):
        return int(pin)
    if isinstance(pin, int):
        return pin
    if isinstance(pin, float) and pin == int(pin):
        return int(pin)
    if isinstance(pin, str):
        s = pin.strip()
        if s.isdigit():
            return int(s)
        if len(s) >= 2 and s[0] == "A" and s[1:].isdigit():
            return 14 + int(s[1:])
    return pin


class Tape:
    def __init__(self, values):
        self.values = list(values or [])
        self.pos = 0

    def next(self):
        if not self.values:
            return 0
        if self.pos < len(self.values):
            v = self.values[self.pos]
            self.pos += 1
            return v
        return self.values[-1]


class World:
    def __init__(self, cfg):
        self.cfg = cfg
        self.ev = []
        self.now = 0.0  # virtual ms
        t = cfg.get("tapes") or {}
        self.d = {int(k): Tape(v) for k, v in (t.get("D") or {}).items()}
        self.a = {int(k): Tape(v) for k, v in (t.get("A") or {}).items()}
        self.p = {int(k): Tape(v) for k, v in (t.get("P") or {}).items()}
        self.s = list(t.get("S") or [])
        self.hazards = []
        self.buttons = []  # (obj, state dict)
        self.lcds = []
        self.live = []
        self.types = {}
        self.lines = 0
        self.line_budget = int(cfg.get("line_budget", 1_000_000))
        self.globals = None
        self.in_setup = True
        self.cur_pass = -1

    def emit(self, *e):
        self.ev.append(list(e))

    def hazard(self, kind, detail=None):
        self.hazards.append([kind, len(self.ev), detail])


W: World = None  # type: ignore


# ---------------------------------------------------------------------------------------------
# hazard wrappers (value-preserving; log which known-finding mechanism was dynamically hit)

class Hz:
    @staticmethod
    def floordiv(a, b):
        r = a // b
        if isinstance(a, float) or isinstance(b, float):
            W.hazard("floordiv-float")
        elif isinstance(a, int) and isinstance(b, int) and a % b != 0 and ((a < 0) != (b < 0)):
            W.hazard("floordiv-neg")
        return r

    @staticmethod
    def mod(a, b):
        r = a % b
        if isinstance(a, str):
            W.hazard("mod-str-format")
        elif isinstance(a, float) or isinstance(b, float):
            W.hazard("mod-float")
        elif r != 0 and ((a < 0) or (b < 0)):
            W.hazard("mod-neg")
        return r

    @staticmethod
    def truediv(a, b):
        r = a / b
        if isinstance(a, int) and isinstance(b, int):
            W.hazard("truediv-int", "inexact" if a % b != 0 else "exact")
        return r

    @staticmethod
    def pow(a, b):
        W.hazard("pow")
        return a ** b

    @staticmethod
    def boolop_value(v):
        if not isinstance(v, bool):
            W.hazard("andor-nonbool")
        return v

    @staticmethod
    def cont():
        W.hazard("continue")

    @staticmethod
    def num_builtin(name, *args):
        if any(isinstance(a, float) for a in args):
            W.hazard("minmax-abs-float")
        return {"abs": abs, "min": min, "max": max}[name](*args)

    @staticmethod
    def text_of(v):
        if isinstance(v, bool):
            W.hazard("bool-to-text")
        elif isinstance(v, float):
            if v != v or v in (math.inf, -math.inf):
                W.hazard("float-nonfinite-text")
        elif isinstance(v, list):
            W.hazard("list-to-text")
        return v


class HazardRewriter(ast.NodeTransformer):
    def _call(self, name, *args):
        return ast.Call(func=ast.Attribute(value=ast.Name(id="__hz", ctx=ast.Load()), attr=name, ctx=ast.Load()),
                        args=list(args), keywords=[])

    def visit_BinOp(self, node):
        self.generic_visit(node)
        m = {ast.FloorDiv: "floordiv", ast.Mod: "mod", ast.Div: "truediv", ast.Pow: "pow"}.get(type(node.op))
        if m:
            return ast.copy_location(self._call(m, node.left, node.right), node)
        return node

    def visit_AugAssign(self, node):
        self.generic_visit(node)
        m = {ast.FloorDiv: "floordiv", ast.Mod: "mod", ast.Div: "truediv", ast.Pow: "pow"}.get(type(node.op))
        if m and isinstance(node.target, ast.Name):
            load = ast.Name(id=node.target.id, ctx=ast.Load())
            new = ast.Assign(targets=[ast.Name(id=node.target.id, ctx=ast.Store())],
                             value=self._call(m, load, node.value))
            return ast.copy_location(new, node)
        return node

    def visit_BoolOp(self, node):
        self.generic_visit(node)
        # the value of `a and b` is the last evaluated operand; wrap the whole expression
        return ast.copy_location(self._call("boolop_value", node), node)

    def visit_Continue(self, node):
        return [ast.copy_location(ast.Expr(value=self._call("cont")), node), node]

    def visit_FormattedValue(self, node):
        self.generic_visit(node)
        node.value = self._call("text_of", node.value)
        return node

    def visit_Call(self, node):
        self.generic_visit(node)
        if isinstance(node.func, ast.Name) and node.func.id == "str" and len(node.args) == 1 and not node.keywords:
            node.args = [self._call("text_of", node.args[0])]
        if isinstance(node.func, ast.Name) and node.func.id in ("abs", "min", "max") and node.args and not node.keywords \
                and not any(isinstance(a, ast.Starred) for a in node.args):
            return ast.copy_location(self._call("num_builtin", ast.Constant(value=node.func.id), *node.args), node)
        return node


# ---------------------------------------------------------------------------------------------
# instrumentation of the real modules

def install(world: World):
    global W
    W = world
    from vlib.common import use_repo

    use_repo()
    import Reduino
    import Reduino.Utils as U
    import Reduino.Actuators as A
    import importlib

    def mod(name):
        importlib.import_module(name)
        return sys.modules[name]

    LedM = mod("Reduino.Actuators.Led")
    RGBM = mod("Reduino.Actuators.RGBLed")
    ServoM = mod("Reduino.Actuators.Servo")
    DCM = mod("Reduino.Actuators.DCMotor")
    S = mod("Reduino.Sensors")
    ButtonM = mod("Reduino.Sensors.Button")
    PotM = mod("Reduino.Sensors.Potentiometer")
    UltraM = mod("Reduino.Sensors.Ultrasonic")
    Core = mod("Reduino.Core")
    SerM = mod("Reduino.Communication.SerialMonitor")
    LCDM = mod("Reduino.Displays.LCD")

    Reduino.target = lambda *a, **k: None

    real_sleep = U.sleep

    def rec_sleep(duration, *, sleep_func=None):
        real_sleep(duration, sleep_func=lambda s: None)  # the real validation still runs
        W.emit("DELAY", float(duration))
        W.now += float(duration)

    U.sleep = rec_sleep
    A.sleep = rec_sleep

    # --- serial -------------------------------------------------------------------------------
    SM = SerM.SerialMonitor
    real_write = SM.write

    def connect(self, port):
        self.port = port

    def write(self, value):
        text = real_write(self, value)
        num = None
        if isinstance(value, bool):
            if W.cfg.get("hazards"):
                W.hazard("bool-to-text")
            num = None
        elif isinstance(value, (int, float)):
            num = float(value) if math.isfinite(float(value)) else None
        W.emit("SER", text, num)
        if text.startswith("@"):
            snapshot_lcds()
        return text

    def read(self, emit="both"):
        if emit not in {"host", "mcu", "both"}:
            raise ValueError("emit must be 'host', 'mcu', or 'both'")
        if emit == "host":
            return ""
        line = W.s.pop(0) if W.s else ""
        W.emit("SREAD", line)
        return line

    SM.connect = connect
    SM.write = write
    SM.read = read
    real_sm_init = SM.__init__

    def sm_init(self, baud_rate=9600, port=None, timeout=1.0, newline="\n"):
        real_sm_init(self, baud_rate, port, timeout, newline)
        W.emit("SBEGIN", int(baud_rate))

    SM.__init__ = sm_init

    # --- actuators ----------------------------------------------------------------------------
    Led = LedM.Led
    real_sb = Led.set_brightness

    def set_brightness(self, value):
        real_sb(self, value)
        W.emit("LVL", norm_pin(self.pin), int(self.brightness))

    Led.set_brightness = set_brightness

    RGB = RGBM.RGBLed
    real_sc = RGB.set_color

    def set_color(self, red, green, blue):
        real_sc(self, red, green, blue)
        for pin, v in zip(self._pins, self._color):
            W.emit("LVL", norm_pin(pin), int(v))

    RGB.set_color = set_color

    Servo = ServoM.Servo
    real_w, real_wus = Servo.write, Servo.write_us

    def s_write(self, angle):
        real_w(self, angle)
        W.emit("SERVO", norm_pin(self.pin), "angle", float(self._current_angle))

    def s_write_us(self, pulse):
        real_wus(self, pulse)
        W.emit("SERVO", norm_pin(self.pin), "us", float(self._current_pulse))

    Servo.write = s_write
    Servo.write_us = s_write_us
    real_servo_init = Servo.__init__

    def servo_init(self, pin=9, **kw):
        real_servo_init(self, pin, **kw)
        W.emit("SERVO", norm_pin(self.pin), "attach", float(self._min_pulse))

    Servo.__init__ = servo_init

    Motor = DCM.DCMotor

    def motor_pins(self, effective, brake=False):
        in1, in2, en = (norm_pin(p) for p in self.pins)
        duty = int(abs(effective) * 255.0 + 0.5)
        if duty > 255:
            duty = 255
        if brake:
            W.emit("LVL", in1, 255)
            W.emit("LVL", in2, 255)
            W.emit("LVL", en, 0)
        elif duty == 0:
            W.emit("LVL", in1, 0)
            W.emit("LVL", in2, 0)
            W.emit("LVL", en, 0)
        else:
            W.emit("LVL", in1, 255 if effective > 0 else 0)
            W.emit("LVL", in2, 0 if effective > 0 else 255)
            W.emit("LVL", en, duty)

    real_apply, real_stop, real_coast, real_minit = Motor._apply_speed, Motor.stop, Motor.coast, Motor.__init__

    def m_apply(self, speed):
        real_apply(self, speed)
        motor_pins(self, self._applied_speed)

    def m_stop(self):
        real_stop(self)
        motor_pins(self, 0.0, brake=True)

    def m_coast(self):
        real_coast(self)
        motor_pins(self, 0.0)

    def m_init(self, in1, in2, enable):
        real_minit(self, in1, in2, enable)
        motor_pins(self, 0.0)

    Motor._apply_speed = m_apply
    Motor.stop = m_stop
    Motor.coast = m_coast
    Motor.__init__ = m_init

    # --- sensors ------------------------------------------------------------------------------
    RealButton = ButtonM.Button

    def make_button(pin, on_click=None, state_provider=None, **kw):
        st = {"sample": False}
        tape = W.d.get(norm_pin(pin)) if isinstance(norm_pin(pin), int) else None

        def provider():
            return st["sample"]

        b = RealButton(pin, on_click=on_click, state_provider=provider, **kw)
        st["tape"] = tape
        st["sample"] = bool(tape.next()) if tape else False
        W.emit("DR", norm_pin(pin), int(st["sample"]))
        W.buttons.append((b, st))
        b.is_pressed()  # start-up sample (the device initialises its edge detector with it)
        return b

    S.Button = make_button
    ButtonM.Button = make_button

    RealPot = PotM.Potentiometer

    def make_pot(pin="A0", value_provider=None, **kw):
        key = norm_pin(pin)

        def provider():
            t = W.a.get(key)
            v = t.next() if t else 0
            W.emit("AR", key, int(v))
            return v

        return RealPot(pin, value_provider=provider, **kw)

    S.Potentiometer = make_pot
    PotM.Potentiometer = make_pot

    real_ultra = UltraM.Ultrasonic

    def make_ultra(trig, echo, **kw):
        kw.pop("distance_provider", None)
        st = {"last": 400.0, "has": False}

        def provider():
            t = W.p.get(norm_pin(echo))
            for _ in range(3):
                us = t.next() if t else 0
                if us < 0 or us > 30000:
                    us = 0
                W.emit("PULSE", norm_pin(echo), int(us))
                if us > 0:
                    st["last"] = us * 0.0343 / 2.0
                    st["has"] = True
                    return st["last"]
            return st["last"] if st["has"] else 400.0

        return real_ultra(trig, echo, distance_provider=provider, **kw)

    S.Ultrasonic = make_ultra

    # --- Core ---------------------------------------------------------------------------------
    r_pm, r_dw, r_aw, r_dr, r_ar = Core.pin_mode, Core.digital_write, Core.analog_write, Core.digital_read, Core.analog_read

    def pin_mode(pin, mode):
        r_pm(pin, mode)
        W.emit("PM", norm_pin(pin), str(mode))

    def digital_write(pin, value):
        r_dw(pin, value)
        W.emit("LVL", norm_pin(pin), 255 if bool(value) else 0)

    def analog_write(pin, value):
        r_aw(pin, value)
        W.emit("LVL", norm_pin(pin), value)

    def digital_read(pin):
        key = norm_pin(pin)
        t = W.d.get(key)
        v = (1 if t.next() else 0) if t else r_dr(pin)
        W.emit("DR", key, int(v))
        return v

    def analog_read(pin):
        key = norm_pin(pin)
        if isinstance(key, int) and key <= 7:
            key += 14
        t = W.a.get(key)
        v = t.next() if t else 0
        W.emit("AR", key, int(v))
        return v

    Core.pin_mode, Core.digital_write, Core.analog_write = pin_mode, digital_write, analog_write
    Core.digital_read, Core.analog_read = digital_read, analog_read

    # --- LCD ----------------------------------------------------------------------------------
    LCD = LCDM.LCD
    real_lcd_init = LCD.__init__

    def lcd_init(self, *a, **k):
        real_lcd_init(self, *a, **k)
        W.lcds.append(self)

    LCD.__init__ = lcd_init
    real_glyph = LCD.glyph

    def lcd_glyph(self, slot, bitmap):
        real_glyph(self, slot, bitmap)
        W.emit("GLYPH", W.lcds.index(self), int(slot), list(self.glyphs[int(slot)]))

    LCD.glyph = lcd_glyph

    def snapshot_lcds():
        for idx, lcd in enumerate(W.lcds):
            W.emit("LCDSNAP", idx, list(lcd.buffer), bool(lcd.display_on), bool(lcd.backlight_on),
                   int(lcd.brightness_level), {str(k): list(v) for k, v in lcd.glyphs.items()})

    W.snapshot_lcds = snapshot_lcds
    return {"Reduino": Reduino}


# ---------------------------------------------------------------------------------------------

def mark(k):
    """Top of main-loop pass k: housekeeping the transpiler injects (button sampling, LCD ticks)."""
    W.in_setup = False
    W.cur_pass = k
    W.live.append(live_measure())
    W.emit("PASS", k)
    named = []
    g = W.globals or {}
    for b, st in W.buttons:
        name = next((n for n, v in g.items() if v is b), "~")
        named.append((name, b, st))
    for name, b, st in sorted(named, key=lambda x: x[0]):
        tape = st.get("tape")
        st["sample"] = bool(tape.next()) if tape else False
        W.emit("DR", norm_pin(b.pin), int(st["sample"]))
        b.is_pressed()
    for lcd in W.lcds:
        if lcd.animations:
            lcd.tick(int(W.now))


def live_measure():
    total = 0
    for n, v in (W.globals or {}).items():
        if n.startswith("__") and n.endswith("__"):   # module dunders only: a script may well call its own variable __xs
            continue
        if isinstance(v, str):
            total += len(v)
        elif isinstance(v, list):
            total += 8 * len(v)
            for e in v:
                if isinstance(e, str):
                    total += len(e)
    return total


def tname(v):
    if isinstance(v, bool):
        return "bool"
    if isinstance(v, int):
        return "int"
    if isinstance(v, float):
        return "float"
    if isinstance(v, str):
        return "str"
    if isinstance(v, list):
        inner = sorted({tname(e) for e in v}) or ["empty"]
        return "list[" + "|".join(inner) + "]"
    return None


def tracer(frame, event, arg):
    if frame.f_code.co_filename != SCRIPT_NAME:
        return None
    if event == "line" or event == "return":
        W.lines += 1
        if W.lines > W.line_budget:
            raise BudgetExceeded()
        if W.cfg.get("trace_types"):
            scope = frame.f_code.co_name
            for n, v in frame.f_locals.items():
                if n.startswith("__"):
                    continue
                t = tname(v)
                if t:
                    W.types.setdefault(f"{scope}:{n}", set()).add(t)
            if event == "return" and scope != "<module>":
                t = tname(arg) if arg is not None else "None"
                if t:
                    W.types.setdefault(f"{scope}:<return>", set()).add(t)
    return tracer


def rewrite_main_loop(tree: ast.Module, passes: int) -> ast.Module:
    for i, node in enumerate(tree.body):
        if isinstance(node, ast.While) and isinstance(node.test, ast.Constant) and node.test.value is True:
            mark_call = ast.Expr(value=ast.Call(func=ast.Name(id="__mark", ctx=ast.Load()),
                                                args=[ast.Name(id="__pass", ctx=ast.Load())], keywords=[]))
            loop = ast.For(target=ast.Name(id="__pass", ctx=ast.Store()),
                           iter=ast.Call(func=ast.Name(id="range", ctx=ast.Load()),
                                         args=[ast.Constant(value=passes)], keywords=[]),
                           body=[mark_call] + node.body, orelse=[])
            stop = ast.Raise(exc=ast.Call(func=ast.Name(id="__StopScript", ctx=ast.Load()), args=[], keywords=[]),
                             cause=None)
            tree.body[i:] = [ast.copy_location(loop, node), ast.copy_location(stop, node)]
            W.has_main_loop = True
            break
    else:
        W.has_main_loop = False
    ast.fix_missing_locations(tree)
    return tree


def run(cfg: dict) -> dict:
    world = World(cfg)
    install(world)
    out = {"status": "ok", "exc": None}
    try:
        tree = ast.parse(cfg["script"], filename=SCRIPT_NAME)
    except SyntaxError as exc:
        return {"status": "syntaxerror", "exc": repr(exc), "events": [], "hazards": [], "types": {}, "live": []}
    tree = rewrite_main_loop(tree, int(cfg.get("passes", 3)))
    if cfg.get("hazards"):
        tree = HazardRewriter().visit(tree)
        ast.fix_missing_locations(tree)
    code = compile(tree, SCRIPT_NAME, "exec")
    g = {"__name__": "__reduino_script__", "__mark": mark, "__StopScript": StopScript, "__hz": Hz}
    world.globals = g
    stdout = sys.stdout
    sys.stdout = io.StringIO()
    sys.settrace(tracer)
    try:
        exec(code, g)
    except StopScript:
        pass
    except BudgetExceeded:
        out["status"] = "budget"
    except RecursionError as exc:
        out["status"] = "raised"
        out["exc"] = "RecursionError"
    except BaseException as exc:  # noqa: BLE001
        out["status"] = "raised"
        out["exc"] = f"{type(exc).__name__}: {exc}"
        out["tb"] = traceback.format_exc()[-1500:]
    finally:
        sys.settrace(None)
        sys.stdout = stdout
    world.live.append(live_measure())
    if not getattr(world, "has_main_loop", False):
        # no main loop: loop() passes only run injected housekeeping
        pass
    out.update({
        "events": world.ev,
        "hazards": world.hazards,
        "types": {k: sorted(v) for k, v in world.types.items()},
        "live": world.live,
        "lines": world.lines,
        "has_main_loop": getattr(world, "has_main_loop", False),
        "final_ms": world.now,
    })
    return out


def main():
    cfg = json.load(open(sys.argv[1]))
    res = run(cfg)
    with open(sys.argv[2], "w") as f:
        json.dump(res, f)


if __name__ == "__main__":
    main()
