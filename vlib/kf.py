"""Probe witness scripts: python -m vlib.kf probe  (prints observed symptom of each witness)."""
import json, sys
from pathlib import Path
from . import engine
from .common import VERIF, run_cases


def symptom(res: dict) -> dict:
    out = {"outcome": res["outcome"]}
    if res["outcome"] == "diverged":
        d = res["divergence"]
        out["why"] = d["why"].split(" (")[0]
        out["fw"] = d["fw"].split(" @")[0]
        out["py"] = d["py"].split(" @")[0]
    elif res["outcome"] == "uncompilable":
        import re
        out["diag"] = re.sub(r"^\S*sketch\.cpp:\d+:\d+:\s*", "", res["diag"])[:100]
    elif res["outcome"] in ("rejected", "internal", "py-undefined"):
        out["exc"] = (res.get("exc") or "")[:100]
    return out


def run_witness(item):
    name, script, passes, tapes = item
    res = engine.differential(script, passes=passes, tapes=tapes, hazards=True)
    return name, symptom(res), engine.hazards_before(res), res.get("san_reports")


if __name__ == "__main__":
    items = []
    for p in sorted((VERIF / "witnesses").glob("*.py")):
        items.append((p.stem, p.read_text(), 2, {"A": {"14": [800]}}))
    for case, st, res in run_cases(run_witness, items):
        print(json.dumps(res) if st == "ok" else ("ERR", case[0], res))
