"""Differential execution engine: DSL script -> (firmware trace, CPython reference trace)."""
from __future__ import annotations

import json
import os
import signal
import subprocess
import sys
from pathlib import Path

from . import fw as fwmod
from . import trace
from .common import PY, VERIF, use_repo

HOSTRUN = VERIF / "vlib" / "hostrun.py"


class TranspileTimeout(Exception):
    pass


def _alarm(signum, frame):
    raise TranspileTimeout()


import contextlib


@contextlib.contextmanager
def time_limit(seconds: float = 30.0):
    """Wall-clock bound around an in-process parse()/emit(): raises TranspileTimeout (a transpiler that does not
    return must not hang the check; what the expiry means is the caller's business)."""
    old = signal.signal(signal.SIGALRM, _alarm)
    signal.setitimer(signal.ITIMER_REAL, seconds)
    try:
        yield
    finally:
        signal.setitimer(signal.ITIMER_REAL, 0)
        signal.signal(signal.SIGALRM, old)


def transpile(src: str, *, timeout_s: float = 20.0) -> dict:
    """parse+emit in this process. status: ok | rejected (ValueError/SyntaxError) | internal | timeout."""
    use_repo()
    from Reduino.transpile.emitter import emit
    from Reduino.transpile.parser import parse

    old = signal.signal(signal.SIGALRM, _alarm)
    signal.setitimer(signal.ITIMER_REAL, timeout_s)
    try:
        program = parse(src)
        cpp = emit(program)
        return {"status": "ok", "cpp": cpp, "program": program}
    except TranspileTimeout:
        return {"status": "timeout", "exc": "transpile exceeded time budget"}
    except (ValueError, SyntaxError) as exc:
        return {"status": "rejected", "exc": f"{type(exc).__name__}: {exc}"}
    except RecursionError:
        return {"status": "internal", "exc": "RecursionError"}
    except Exception as exc:  # noqa: BLE001
        return {"status": "internal", "exc": f"{type(exc).__name__}: {exc}"}
    finally:
        signal.setitimer(signal.ITIMER_REAL, 0)
        signal.signal(signal.SIGALRM, old)


def host_reference(script: str, workdir: Path, *, tapes=None, passes=3, hazards=False, trace_types=False,
                   line_budget=400_000, timeout=60) -> dict:
    cfg = {"script": script, "tapes": tapes or {}, "passes": passes, "hazards": hazards,
           "trace_types": trace_types, "line_budget": line_budget}
    workdir.mkdir(parents=True, exist_ok=True)
    cfg_path = workdir / "host_cfg.json"
    out_path = workdir / "host_out.json"
    cfg_path.write_text(json.dumps(cfg))
    if out_path.exists():
        out_path.unlink()
    env = dict(os.environ)
    env["PYTHONHASHSEED"] = "0"
    try:
        p = subprocess.run([PY, str(HOSTRUN), str(cfg_path), str(out_path)], capture_output=True, text=True,
                           timeout=timeout, env=env)
    except subprocess.TimeoutExpired:
        return {"status": "watchdog", "events": [], "hazards": [], "types": {}, "live": []}
    if p.returncode != 0 or not out_path.exists():
        return {"status": "harness-error", "exc": p.stderr[-2000:], "events": [], "hazards": [], "types": {},
                "live": []}
    return json.loads(out_path.read_text())


def firmware(cpp: str, workdir: Path, *, passes=3, tapes=None, t0_ms=0, budget=50_000_000, gate=False) -> dict:
    b = fwmod.build(cpp, workdir)
    if not b["ok"]:
        return {"status": "uncompilable", "diag": b["diag"], "events": [], "san_reports": [], "build": b}
    r = fwmod.run(b["binary"], workdir, passes=passes, tapes=tapes, t0_ms=t0_ms, budget=budget, gate=gate)
    r["build"] = {"profile": b["profile"]}
    r["binary"] = b["binary"]
    return r


def first_diag_line(diag: str) -> str:
    for line in (diag or "").splitlines():
        if "error" in line:
            return line.strip()[:300]
    return (diag or "").strip()[:300]


def differential(script: str, *, tapes=None, passes=3, hazards=False, trace_types=False, timing=True,
                 tol_pins=frozenset(), no_dedupe_pins=frozenset(), keep=("SER", "LVL", "SERVO", "PASS"),
                 workdir: Path | None = None, ignore_pass=False, time_slack_ms=0.0, want_fw_events=False,
                 start_marker: str | None = None) -> dict:
    """Run one script on both sides and compare. outcome in:
    rejected | internal | transpile-timeout | py-undefined | py-budget | uncompilable | fw-hang | fw-crash |
    inconclusive | equal | diverged"""
    own = workdir is None
    scratch = fwmod.Scratch() if own else None
    wd = scratch.__enter__() if own else workdir
    try:
        res: dict = {"script": script}
        t = transpile(script)
        res["transpile"] = t["status"]
        if t["status"] == "rejected":
            res.update(outcome="rejected", exc=t["exc"])
            return res
        if t["status"] == "internal":
            res.update(outcome="internal", exc=t["exc"])
            return res
        if t["status"] == "timeout":
            res.update(outcome="transpile-timeout")
            return res
        cpp = t["cpp"]
        res["cpp"] = cpp
        py = host_reference(script, wd, tapes=tapes, passes=passes, hazards=hazards, trace_types=trace_types)
        res["py_status"] = py["status"]
        res["hazards"] = py.get("hazards", [])
        res["types"] = py.get("types", {})
        res["live"] = py.get("live", [])
        res["py_events"] = py.get("events", [])
        if py["status"] in ("raised", "syntaxerror"):
            res.update(outcome="py-undefined", exc=py.get("exc"))
            return res
        if py["status"] == "budget":
            res.update(outcome="py-budget")
            return res
        if py["status"] != "ok":
            res.update(outcome="inconclusive", why=f"reference run: {py['status']} {py.get('exc', '')}")
            return res
        f = firmware(cpp, wd, passes=passes, tapes=tapes)
        res["fw_status"] = f["status"]
        res["san_reports"] = f.get("san_reports", [])
        if want_fw_events:
            res["fw_events"] = f.get("events", [])
        if f["status"] == "uncompilable":
            res.update(outcome="uncompilable", diag=first_diag_line(f["diag"]), full_diag=f["diag"][-3000:])
            return res
        if f["status"] in ("stepbudget", "cpulimit"):
            res.update(outcome="fw-hang", fw_tail=[list(e) for e in f["events"][-8:]])
            res["fw_events"] = f.get("events", [])
            return res
        if f["status"] == "watchdog":
            res.update(outcome="inconclusive", why="firmware wall-clock watchdog")
            return res
        if f["status"] != "ok":
            res.update(outcome="fw-crash", why=f["status"], stderr=f.get("stderr", "")[-1500:],
                       fw_tail=[list(e) for e in f["events"][-8:]])
            return res
        nevents = sum(1 for e in f["events"] if e[1] in ("SER", "DW", "AW", "DELAY", "TONE", "LCD"))
        res["fw_nevents"] = nevents
        steps = next((e[2] for e in reversed(f["events"]) if e[1] == "END"), ["0", "0"])
        res["fw_blocks"] = int(steps[1]) if len(steps) > 1 else 0
        fm = trace.fw_model(f["events"], keep=keep)
        pm = trace.py_model(py["events"], keep=keep, final_ms=py.get("final_ms"))
        if start_marker is not None:
            # device configuration is hoisted to the top of setup(); compare from the marker printed after the declarations
            fm = trace.after_marker(fm, start_marker)
            pm = trace.after_marker(pm, start_marker)
            if fm is None or pm is None:
                res.update(outcome="inconclusive", why="start marker not found in a trace")
                return res
        fm = trace.dedupe_levels(fm, no_dedupe_pins=no_dedupe_pins)
        pm = trace.dedupe_levels(pm, no_dedupe_pins=no_dedupe_pins)
        if not py.get("has_main_loop"):
            fm = [e for e in fm if e["k"] != "PASS"]
        res["fingerprint"] = trace_fingerprint(fm)
        res["n_model_events"] = len(fm)
        d = trace.compare(fm, pm, timing=timing, tol_pins=tol_pins, ignore_pass=ignore_pass,
                          time_slack_ms=time_slack_ms)
        if d is None:
            res["outcome"] = "equal"
        else:
            res["outcome"] = "diverged"
            res["divergence"] = d
            # position (index in the raw python event list) of the first divergence, for hazard attribution
            res["py_div_index"] = _raw_index(py["events"], d["index_py"], keep, no_dedupe_pins)
        return res
    finally:
        if own:
            scratch.__exit__(None, None, None)


def trace_fingerprint(model) -> str:
    import hashlib

    h = hashlib.sha256()
    for e in model:
        h.update(repr((e["k"], e.get("text"), e.get("pin"), e.get("v"), e.get("n"), round(e["t"], 3))).encode())
    return h.hexdigest()[:20]


def _raw_index(events, model_index, keep, no_dedupe_pins) -> int:
    """Map an index in the deduped python model back to an index in the raw event list."""
    level = {}
    count = 0
    for idx, e in enumerate(events):
        k = e[0]
        if k == "DELAY" or k not in keep:
            continue
        if k == "LVL" and e[1] not in no_dedupe_pins:
            if level.get(e[1], 0) == e[2]:
                continue
            level[e[1]] = e[2]
        if count == model_index:
            return idx
        count += 1
    return len(events)


def outside_domain(res: dict) -> str | None:
    """The generators promise small integers and short strings (16-bit int / 2 KB RAM on the AVR); a program whose CPython
    run leaves that domain is discarded, not judged."""
    for e in res.get("py_events", []):
        if e[0] == "SER":
            if e[2] is not None and abs(e[2]) > 1e8:
                return "integer magnitude > 1e8"
            if isinstance(e[1], str) and len(e[1]) > 1500:
                return "string longer than 1500 characters"
    live = res.get("live") or []
    if live and max(live) > 20000:
        return "live data > 20000 bytes"
    for a, b, c in res.get("san_reports") or []:
        if "signed integer overflow" in b:
            return "signed integer overflow in the firmware (values left the int range)"
    return None


def hazards_before(res: dict) -> list[str]:
    """Hazard kinds dynamically triggered at or before the first divergence (all, when no divergence)."""
    limit = res.get("py_div_index")
    out = []
    for kind, pos, _detail in res.get("hazards", []):
        if limit is None or pos <= limit + 1:
            if kind not in out:
                out.append(kind)
    return out
