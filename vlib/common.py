"""Shared plumbing: paths, seeds/tiers, repo import guard, parallel case runner, verdicts,
evidence writer, known-findings register."""
from __future__ import annotations

import concurrent.futures as cf
import hashlib
import json
import os
import random
import shutil
import subprocess
import sys
import time
import traceback
from pathlib import Path

VERIF = Path(__file__).resolve().parent.parent
REPO = Path(os.environ.get("REDU_REPO", "/repo"))
REPO_SRC = REPO / "src"
PY = "/venv/bin/python"
DEPS = VERIF / ".deps"
BUILD = VERIF / ".build"
# runs against a scratch copy of the repository (REDU_REPO set) must not overwrite the committed evidence
EVIDENCE = Path(os.environ["VERIF_EVIDENCE_DIR"]) if os.environ.get("VERIF_EVIDENCE_DIR") else VERIF / "evidence"
REPLAYS = VERIF / "replays"
GUARD = "REDUINO_VERIF"

os.environ.setdefault("PYTHONHASHSEED", "0")


def seed() -> int:
    try:
        return int(os.environ.get("VERIF_SEED", "0"))
    except ValueError:
        return 0


def tier(default: str = "quick") -> str:
    t = os.environ.get("VERIF_TIER", default)
    return t if t in ("quick", "thorough") else default


def jobs() -> int:
    try:
        return max(1, int(os.environ.get("VERIF_JOBS", str(os.cpu_count() or 4))))
    except ValueError:
        return 4


def rng_for(*parts) -> random.Random:
    h = hashlib.sha256(("|".join(str(p) for p in parts)).encode()).digest()
    return random.Random(int.from_bytes(h[:8], "big"))


def sha(text: str) -> str:
    return hashlib.sha256(text.encode("utf-8", "surrogatepass")).hexdigest()


def use_repo() -> None:
    """Make `import Reduino` resolve to the working tree under /repo/src and assert it."""
    src = str(REPO_SRC)
    if src in sys.path:
        sys.path.remove(src)
    sys.path.insert(0, src)
    for name in list(sys.modules):
        if name == "Reduino" or name.startswith("Reduino."):
            mod = sys.modules[name]
            f = getattr(mod, "__file__", "") or ""
            if f and not f.startswith(src):
                del sys.modules[name]
    import Reduino  # noqa: F401

    f = getattr(Reduino, "__file__", "") or ""
    if not f.startswith(src):
        raise RuntimeError(f"Reduino imported from {f}, expected under {src}")


def ensure_deps() -> None:
    """Install icontract (pure wheel) beside the repo's interpreter, offline, on demand."""
    marker = DEPS / "icontract"
    if not marker.exists():
        DEPS.mkdir(parents=True, exist_ok=True)
        subprocess.run(
            [PY, "-m", "pip", "install", "--quiet", "--no-index", "--find-links", "/opt/veriftools/wheels",
             "--target", str(DEPS), "icontract"],
            check=True, stdout=subprocess.DEVNULL, stderr=subprocess.DEVNULL,
        )
    if str(DEPS) not in sys.path:
        sys.path.insert(0, str(DEPS))


# ---------------------------------------------------------------------------------------------
# parallel case runner: `fn(case)` runs in a worker process; exceptions are captured per case.

def _guarded(fn, case):
    try:
        return ("ok", fn(case))
    except BaseException as exc:  # noqa: BLE001 - per-case isolation
        return ("error", "".join(traceback.format_exception(type(exc), exc, exc.__traceback__))[-4000:])


def run_cases(fn, cases, *, workers: int | None = None, chunk: int = 1):
    """Yield (case, status, result) for every case, in completion order."""
    workers = workers or jobs()
    cases = list(cases)
    if workers <= 1 or len(cases) <= 1:
        for c in cases:
            st, res = _guarded(fn, c)
            yield c, st, res
        return
    with cf.ProcessPoolExecutor(max_workers=workers) as ex:
        futs = {ex.submit(_guarded, fn, c): c for c in cases}
        for fut in cf.as_completed(futs):
            c = futs[fut]
            try:
                st, res = fut.result()
            except BaseException as exc:  # worker died
                st, res = "error", f"worker failure: {exc!r}"
            yield c, st, res


# ---------------------------------------------------------------------------------------------
# known findings

def load_known_findings() -> list[dict]:
    p = VERIF / "known_findings.json"
    if not p.exists():
        return []
    return json.loads(p.read_text())["findings"]


class Report:
    """Collects the outcome of one check run and writes evidence / prints verdict lines."""

    def __init__(self, prop: str, level: str = "exploration"):
        self.prop = prop
        self.level = level
        self.t0 = time.time()
        self.tier = tier()
        self.seed = seed()
        self.evaluations = 0
        self.distinct: set[str] = set()
        self.samples: list = []
        self.counters: dict[str, int] = {}
        self.violations: list[dict] = []
        self.known_hits: dict[str, dict] = {}
        self.inconclusive: list[str] = []
        self.extra: dict = {}
        self.assumptions: list[str] = []
        self.rule = ""
        self.findings = [f for f in load_known_findings()
                         if f.get("property") == prop or prop in (f.get("also") or [])]
        self.open_findings = {f["id"]: f for f in self.findings if f.get("status") == "open"}
        self.primary_findings = [f for f in self.findings if f.get("property") == prop and f.get("status") == "open"]

    def count(self, key: str, n: int = 1) -> None:
        self.counters[key] = self.counters.get(key, 0) + n

    def case(self, fingerprint: str | None = None, nontrivial: bool = True) -> None:
        self.evaluations += 1
        if fingerprint is not None and nontrivial:
            self.distinct.add(fingerprint)

    def sample(self, obj, limit: int = 6) -> None:
        if len(self.samples) < limit:
            self.samples.append(obj)

    def known(self, finding_id: str, what: str, witness=None) -> None:
        """Attribute an observed discrepancy to an open, listed finding."""
        if finding_id not in self.open_findings:
            self.violation(f"unlisted finding id {finding_id}: {what}", witness)
            return
        ent = self.known_hits.setdefault(finding_id, {"what": what, "hits": 0, "witness": witness})
        ent["hits"] += 1

    def violation(self, what: str, witness=None, *, key: str | None = None) -> None:
        key = key or what
        for v in self.violations:
            if v["key"] == key:
                v["hits"] += 1
                return
        self.violations.append({"key": key, "what": what, "witness": witness, "hits": 1})

    def inconclusive_because(self, why: str) -> None:
        self.inconclusive.append(why)

    # -----------------------------------------------------------------------------------------
    def _write_replay(self, idx: int, v: dict) -> str:
        d = REPLAYS / self.prop / f"{self.tier}-seed{self.seed}-{idx}"
        if d.exists():
            shutil.rmtree(d, ignore_errors=True)
        d.mkdir(parents=True, exist_ok=True)
        (d / "violation.json").write_text(json.dumps(v, indent=1, default=str))
        w = v.get("witness")
        if isinstance(w, dict):
            for name, content in w.items():
                if isinstance(content, str) and name.endswith((".py", ".cpp", ".txt", ".json", ".log")):
                    (d / name).write_text(content)
        return str(d)

    def finish(self, *, min_distinct: int = 2, exhaustive: bool = False) -> int:
        wall = time.time() - self.t0
        if len(self.distinct) < min_distinct and not self.violations:
            self.inconclusive.append(
                f"only {len(self.distinct)} distinct non-trivial cases observed (< {min_distinct})")
        coverage = {
            "evaluations": self.evaluations,
            "distinct_nontrivial": len(self.distinct),
            "rule": self.rule,
            "samples": self.samples or ["<none>"],
            "counters": dict(sorted(self.counters.items())),
            "known_findings_reproduced": {k: {"what": v["what"], "hits": v["hits"]} for k, v in self.known_hits.items()},
            "inconclusive_reasons": self.inconclusive,
            "exhaustive": bool(exhaustive),
        }
        coverage.update(self.extra)
        ev = {
            "property_id": self.prop,
            "tier": self.tier,
            "seed": self.seed,
            "level": self.level,
            "coverage": coverage,
            "assumptions": self.assumptions,
            "wall_s": round(wall, 2),
            "violations": len(self.violations),
        }
        EVIDENCE.mkdir(exist_ok=True)
        (EVIDENCE / f"{self.prop}.json").write_text(json.dumps(ev, indent=1, default=str) + "\n")
        for fid, hit in sorted(self.known_hits.items()):
            print(f"KNOWN-FINDING: property={self.prop} {fid} {hit['what']} (hits={hit['hits']})")
        print(f"[{self.prop}] tier={self.tier} seed={self.seed} evaluations={self.evaluations} "
              f"distinct_nontrivial={len(self.distinct)} wall={wall:.1f}s counters={json.dumps(coverage['counters'])}")
        if self.violations:
            for i, v in enumerate(self.violations):
                path = self._write_replay(i, v)
                print(f"VIOLATION property={self.prop} replay={path}")
                print(f"  what: {v['what']} (hits={v['hits']})")
            return 1
        if self.inconclusive:
            for why in self.inconclusive:
                print(f"INCONCLUSIVE property={self.prop} reason={why}")
            return 2
        print(f"HELD property={self.prop} on everything explored")
        return 0
