"""Build and run generated firmware against the mock Arduino core."""
from __future__ import annotations

import hashlib
import os
import re
import resource
import shutil
import subprocess
import tempfile
from pathlib import Path

from .common import BUILD, VERIF

MOCK = VERIF / "vlib" / "mockcore"
LIBDIRS = {
    "Servo.h": MOCK / "libs" / "Servo",
    "LiquidCrystal.h": MOCK / "libs" / "LiquidCrystal",
    "LiquidCrystal_I2C.h": MOCK / "libs" / "LiquidCrystal_I2C",
}
CLANG = "clang++-14"
GXX = "g++"

SAN = ["-fsanitize=address,undefined,float-cast-overflow", "-fsanitize-recover=all", "-fno-omit-frame-pointer"]
COV = ["-fsanitize-coverage=trace-pc-guard", "-mllvm", "-sanitizer-coverage-prune-blocks=0"]

_INCLUDE_RE = re.compile(r"^\s*#\s*include\s*<([^>]+)>", re.M)


def _mock_digest() -> str:
    h = hashlib.sha256()
    for p in sorted(MOCK.rglob("*")):
        if p.is_file():
            h.update(p.name.encode())
            h.update(p.read_bytes())
    return h.hexdigest()[:16]


def runtime_object(kind: str = "asan") -> Path:
    """Compile runtime.cpp once per mock version (cached under .build)."""
    BUILD.mkdir(exist_ok=True)
    out = BUILD / f"runtime_{kind}_{_mock_digest()}.o"
    if out.exists():
        return out
    inc = ["-I", str(MOCK)]
    for d in LIBDIRS.values():
        inc += ["-I", str(d)]
    if kind == "asan":
        cmd = [CLANG, "-std=gnu++17", "-O1", "-g", "-fsanitize=address", "-fno-omit-frame-pointer"]
    elif kind == "asan_gxx":
        cmd = [GXX, "-std=gnu++17", "-O1", "-g", "-fsanitize=address", "-fno-omit-frame-pointer"]
    else:
        cmd = [GXX, "-std=gnu++17", "-O1", "-g"]
    tmp = out.with_suffix(f".{os.getpid()}.tmp.o")
    subprocess.run(cmd + inc + ["-c", str(MOCK / "runtime.cpp"), "-o", str(tmp)], check=True,
                   stdout=subprocess.DEVNULL, stderr=subprocess.PIPE)
    os.replace(tmp, out)
    return out


def include_flags(cpp: str, restrict: bool = True) -> list[str]:
    flags = ["-I", str(MOCK)]
    included = set(_INCLUDE_RE.findall(cpp))
    for header, d in LIBDIRS.items():
        if not restrict or header in included:
            flags += ["-I", str(d)]
    return flags


def syntax_check(cpp_path: Path, cpp: str, timeout: int = 60) -> tuple[bool, str]:
    """g++ front end with AVR-like flags, no C++ standard headers (closest to avr-gcc)."""
    cmd = [GXX, "-std=gnu++11", "-fpermissive", "-fno-threadsafe-statics", "-nostdinc++", "-fsyntax-only", "-w", "-DREDU_AVR_LONG",
           "-x", "c++"] + include_flags(cpp) + [str(cpp_path)]
    p = subprocess.run(cmd, capture_output=True, text=True, timeout=timeout)
    return p.returncode == 0, p.stderr


def build(cpp: str, workdir: Path, *, coverage: bool = True, timeout: int = 120) -> dict:
    """Compile+link `cpp` with ASan/UBSan (clang; g++ -fpermissive fallback). Returns dict(ok, binary, profile, diag)."""
    workdir.mkdir(parents=True, exist_ok=True)
    src = workdir / "sketch.cpp"
    src.write_text(cpp)
    obj = workdir / "sketch.o"
    binary = workdir / "fw"
    inc = include_flags(cpp)
    cmd = [CLANG, "-std=gnu++17", "-O0", "-gline-tables-only", "-nostdinc++", "-w", "-ferror-limit=5", "-DREDU_AVR_LONG", "-Wno-keyword-macro"] + SAN
    if coverage:
        cmd += COV
    p = subprocess.run(cmd + inc + ["-c", str(src), "-o", str(obj)], capture_output=True, text=True, timeout=timeout)
    profile = "clang"
    diag = p.stderr
    if p.returncode != 0:
        # g++ -fpermissive accepts some constructs clang rejects (as the AVR toolchain does)
        cmd = [GXX, "-std=gnu++11", "-fpermissive", "-O0", "-g1", "-nostdinc++", "-w", "-fmax-errors=5", "-DREDU_AVR_LONG"] + SAN
        p2 = subprocess.run(cmd + inc + ["-c", str(src), "-o", str(obj)], capture_output=True, text=True,
                            timeout=timeout)
        if p2.returncode != 0:
            return {"ok": False, "binary": None, "profile": None, "diag": p2.stderr, "clang_diag": diag}
        profile = "gxx"
        link = [GXX, "-fsanitize=address,undefined", str(obj), str(runtime_object("asan_gxx")), "-o", str(binary)]
    else:
        link = [CLANG, "-fsanitize=address,undefined", str(obj), str(runtime_object("asan")), "-o", str(binary)]
    p3 = subprocess.run(link, capture_output=True, text=True, timeout=timeout)
    if p3.returncode != 0:
        return {"ok": False, "binary": None, "profile": profile, "diag": p3.stderr, "stage": "link"}
    return {"ok": True, "binary": binary, "profile": profile, "diag": diag}


def build_plain(cpp: str, workdir: Path, timeout: int = 120) -> dict:
    """Unsanitized g++ build (for valgrind memcheck: uninitialised reads, which ASan does not see)."""
    workdir.mkdir(parents=True, exist_ok=True)
    src = workdir / "sketch.cpp"
    src.write_text(cpp)
    binary = workdir / "fw_plain"
    cmd = [GXX, "-std=gnu++11", "-fpermissive", "-O0", "-g", "-nostdinc++", "-w", "-DREDU_AVR_LONG"] + include_flags(cpp) + ["-c", str(src), "-o", str(workdir / "sketch_plain.o")]
    p = subprocess.run(cmd, capture_output=True, text=True, timeout=timeout)
    if p.returncode != 0:
        return {"ok": False, "diag": p.stderr}
    p2 = subprocess.run([GXX, str(workdir / "sketch_plain.o"), str(runtime_object("plain")), "-o", str(binary)], capture_output=True, text=True, timeout=timeout)
    if p2.returncode != 0:
        return {"ok": False, "diag": p2.stderr}
    return {"ok": True, "binary": binary}


def run_valgrind(binary: Path, workdir: Path, *, passes: int = 3, tapes: dict | None = None, wall_timeout: int = 120) -> dict:
    """memcheck run; returns dict(status, errors=[kinds])"""
    log = workdir / "events_vg.log"
    tp = workdir / "tapes_vg.txt"
    write_tapes(tp, tapes)
    vlog = workdir / "valgrind.log"
    env = dict(os.environ)
    env.update({"REDU_LOG": str(log), "REDU_TAPES": str(tp), "REDU_PASSES": str(passes), "REDU_BUDGET": "50000000"})
    cmd = ["valgrind", "--tool=memcheck", "-q", "--error-exitcode=9", "--track-origins=yes", "--leak-check=no", f"--log-file={vlog}", str(binary)]
    try:
        p = subprocess.run(cmd, env=env, capture_output=True, text=True, timeout=wall_timeout, cwd=str(workdir))
    except subprocess.TimeoutExpired:
        return {"status": "watchdog", "errors": []}
    txt = vlog.read_text(errors="replace") if vlog.exists() else ""
    kinds = sorted(set(re.findall(r"==\d+== (Conditional jump or move depends on uninitialised value|Use of uninitialised value of size \d+|Invalid read of size \d+|Invalid write of size \d+|Invalid free|Mismatched free|Syscall param [^\n]*uninitialised)", txt)))
    return {"status": "ok" if p.returncode == 0 else f"exit{p.returncode}", "errors": kinds, "log": txt[-1500:]}


def _limits():
    resource.setrlimit(resource.RLIMIT_CPU, (8, 10))
    resource.setrlimit(resource.RLIMIT_CORE, (0, 0))


def write_tapes(path: Path, tapes: dict | None) -> None:
    """tapes: {"D": {pin: [..]}, "A": {pin: [..]}, "P": {pin: [..]}, "S": [lines]}"""
    lines = []
    for kind in ("D", "A", "P"):
        for pin, vals in (tapes or {}).get(kind, {}).items():
            lines.append(f"{kind} {int(pin)} " + " ".join(str(int(v)) for v in vals))
    for s in (tapes or {}).get("S", []):
        lines.append("S " + s)
    path.write_text("\n".join(lines) + ("\n" if lines else ""))


_ASAN_RE = re.compile(r"ERROR: AddressSanitizer: ([\w-]+)")
_UBSAN_RE = re.compile(r"runtime error: (.*)")


def run(binary: Path, workdir: Path, *, passes: int = 3, tapes: dict | None = None, t0_ms: int = 0,
        budget: int = 50_000_000, gate: bool = False, wall_timeout: int = 30) -> dict:
    """Run a firmware binary; returns dict(events, status, san_reports, exit)."""
    log = workdir / ("events_gate.log" if gate else "events.log")
    tp = workdir / "tapes.txt"
    write_tapes(tp, tapes)
    sanlog = workdir / ("san_gate" if gate else "san")
    for old in workdir.glob(sanlog.name + ".*"):
        old.unlink()
    env = dict(os.environ)
    env.update({
        "REDU_LOG": str(log), "REDU_TAPES": str(tp), "REDU_PASSES": str(passes), "REDU_T0_MS": str(t0_ms),
        "REDU_BUDGET": str(budget),
        "ASAN_OPTIONS": f"halt_on_error={1 if gate else 0}:abort_on_error=0:detect_leaks=0:log_path={sanlog}:"
                        "allocator_may_return_null=1:detect_stack_use_after_return=0:symbolize=1",
        "UBSAN_OPTIONS": f"halt_on_error={1 if gate else 0}:print_stacktrace=0:log_path={sanlog}",
        "ASAN_SYMBOLIZER_PATH": shutil.which("llvm-symbolizer-14") or shutil.which("llvm-symbolizer") or "",
    })
    status = "ok"
    try:
        p = subprocess.run([str(binary)], env=env, capture_output=True, text=True, timeout=wall_timeout,
                           preexec_fn=_limits, cwd=str(workdir))
        code = p.returncode
        stderr = p.stderr[-4000:]
    except subprocess.TimeoutExpired:
        return {"events": [], "status": "watchdog", "san_reports": [], "exit": None, "stderr": ""}
    if code == 97:
        status = "stepbudget"
    elif code in (-24, 152):
        status = "cpulimit"
    elif code != 0:
        status = f"exit{code}"
    events = []
    if log.exists():
        for line in log.read_text(errors="replace").splitlines():
            parts = line.split("\t")
            if len(parts) < 2:
                continue
            try:
                t = int(parts[0])
            except ValueError:
                continue
            events.append((t, parts[1], parts[2:]))
    reports = []
    for f in sorted(workdir.glob(sanlog.name + ".*")):
        txt = f.read_text(errors="replace")
        for m in _ASAN_RE.finditer(txt):
            reports.append(("asan", m.group(1), _first_sketch_frame(txt, m.end())))
        for m in _UBSAN_RE.finditer(txt):
            line_start = txt.rfind("\n", 0, m.start()) + 1
            loc = txt[line_start:m.start()].strip().rstrip(":")
            reports.append(("ubsan", _norm_ubsan(m.group(1)), loc.split("/")[-1]))
    for m in _UBSAN_RE.finditer(stderr):
        reports.append(("ubsan", _norm_ubsan(m.group(1)), "stderr"))
    for m in _ASAN_RE.finditer(stderr):
        reports.append(("asan", m.group(1), "stderr"))
    complete = bool(events) and events[-1][1] == "END"
    if status == "ok" and not complete:
        status = "truncated"
    return {"events": events, "status": status, "san_reports": reports, "exit": code, "stderr": stderr}


def _norm_ubsan(msg: str) -> str:
    msg = re.sub(r"-?\d+(\.\d+)?(e[+-]?\d+)?", "N", msg)
    return msg.strip()[:120]


def _first_sketch_frame(txt: str, pos: int) -> str:
    m = re.search(r"#\d+ 0x[0-9a-f]+ in (\S+) [^\n]*sketch\.cpp:(\d+)", txt[pos:pos + 6000])
    return f"{m.group(1)}@{m.group(2)}" if m else "?"


class Scratch:
    """Temporary directory outside /repo and /verif, removed on exit."""

    def __init__(self, prefix: str = "reduverif-"):
        self.prefix = prefix
        self.path: Path | None = None

    def __enter__(self) -> Path:
        self.path = Path(tempfile.mkdtemp(prefix=self.prefix))
        return self.path

    def __exit__(self, *exc) -> None:
        if self.path is not None:
            shutil.rmtree(self.path, ignore_errors=True)
