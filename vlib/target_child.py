"""Child process for C12: run a user script that calls target() with recording fakes and injected faults.
usage: python target_child.py <config.json> <out.json>"""
from __future__ import annotations

import json
import os
import runpy
import shutil
import subprocess
import sys
import tempfile

sys.path.insert(0, os.path.dirname(os.path.dirname(os.path.abspath(__file__))))


class Done(BaseException):
    pass


def main():
    cfg = json.load(open(sys.argv[1]))
    faults = cfg.get("faults", {})
    from vlib.common import use_repo

    use_repo()
    import pathlib

    import Reduino
    from Reduino.transpile.emitter import emit
    from Reduino.transpile.parser import parse

    effects = []
    out = {"effects": effects}
    workroot = tempfile.mkdtemp(prefix="reduverif-c12-")
    script_path = os.path.join(workroot, "user_script.py")
    enc = cfg.get("encoding")
    if enc == "latin-1-cookie":
        # legal Python source that is not UTF-8: the text Python sees is the latin-1 decoding (the cookie line is a comment)
        cfg["script"] = "# -*- coding: latin-1 -*-\n" + cfg["script"]
        with open(script_path, "wb") as f:
            f.write(cfg["script"].encode("latin-1"))
    elif enc == "utf-8-bom":
        with open(script_path, "wb") as f:
            f.write(b"\xef\xbb\xbf" + cfg["script"].encode("utf-8"))
    else:
        with open(script_path, "w", encoding="utf-8") as f:
            f.write(cfg["script"])
    # independent expectation computed before any patching
    try:
        program = parse(cfg["script"])
        out["expected_cpp"] = emit(program)
        out["expected_libs"] = Reduino._collect_required_libraries(program)
        out["parse_ok"] = True
    except Exception as exc:  # noqa: BLE001
        out["parse_ok"] = False
        out["parse_exc"] = type(exc).__name__

    real_run = subprocess.run
    real_mkdtemp = tempfile.mkdtemp
    real_write_text = pathlib.Path.write_text
    real_mkdir = pathlib.Path.mkdir
    made = []

    def fake_run(cmd, *a, **k):
        effects.append(["run", list(cmd) if isinstance(cmd, (list, tuple)) else cmd, str(k.get("cwd")) if k.get("cwd") is not None else None,
                        bool(k.get("check"))])
        argv = list(cmd) if isinstance(cmd, (list, tuple)) else [cmd]
        mode = "ok"
        if faults.get("pio") == "only-platformio":
            # an installation whose only executable is called `platformio`
            if argv and argv[0] == "pio":
                raise FileNotFoundError(2, "No such file or directory", "pio")
            return subprocess.CompletedProcess(cmd, 0)
        if argv[:2] == ["pio", "--version"]:
            mode = faults.get("pio", "ok")
        elif argv == ["pio", "run"]:
            mode = faults.get("build", "ok")
        elif argv == ["pio", "run", "-t", "upload"]:
            mode = faults.get("upload", "ok")
        if mode == "missing":
            raise FileNotFoundError(2, "No such file or directory", "pio")
        if mode == "permission":
            raise PermissionError(13, "Permission denied", "pio")
        if mode == "oserror":
            raise OSError(8, "Exec format error", "pio")
        if mode in ("fail", "signal"):
            status = 1 if mode == "fail" else -9   # -9: the tool was killed by a signal
            if k.get("check"):
                raise subprocess.CalledProcessError(status, cmd)
            return subprocess.CompletedProcess(cmd, status)
        return subprocess.CompletedProcess(cmd, 0)

    def fake_mkdtemp(*a, **k):
        if faults.get("mkdtemp") == "oserror":
            effects.append(["mkdtemp-fault"])
            raise OSError(28, "No space left on device")
        k2 = dict(k)
        k2["dir"] = workroot
        d = real_mkdtemp(*a, **k2)
        made.append(d)
        effects.append(["mkdtemp", d])
        return d

    def fake_write_text(self, data, *a, **k):
        name = self.name
        if (name == "main.cpp" and faults.get("write_main") == "oserror") or \
                (name == "platformio.ini" and faults.get("write_ini") == "oserror"):
            effects.append(["write-fault", str(self)])
            raise OSError(28, "No space left on device")
        effects.append(["write", str(self)])
        return real_write_text(self, data, *a, **k)

    def fake_mkdir(self, *a, **k):
        effects.append(["mkdir", str(self)])
        return real_mkdir(self, *a, **k)

    real_which = shutil.which

    def fake_which(name, *a, **k):
        if name == "pio":
            return None if faults.get("pio") in ("missing", "only-platformio") else "/usr/local/bin/pio"
        if name == "platformio":
            return None if faults.get("pio") == "missing" else "/usr/local/bin/platformio"
        return real_which(name, *a, **k)

    shutil.which = fake_which
    subprocess.run = fake_run
    tempfile.mkdtemp = fake_mkdtemp
    pathlib.Path.write_text = fake_write_text
    pathlib.Path.mkdir = fake_mkdir

    def hook(event, args):
        if event == "subprocess.Popen":
            effects.append(["popen", [str(x) for x in (args[1] or [])][:4]])
        elif event == "os.system":
            effects.append(["os.system", str(args[0])[:80]])

    sys.addaudithook(hook)

    real_target = Reduino.target
    state = {}

    def wrapper(*a, **k):
        try:
            state["ret"] = real_target(*a, **k)
            state["outcome"] = "returned"
        except BaseException as exc:  # noqa: BLE001
            state["outcome"] = "raised"
            state["exc_type"] = type(exc).__name__
            state["exc_msg"] = str(exc)[:200]
        raise Done()

    Reduino.target = wrapper
    stdout, stderr = sys.stdout, sys.stderr
    sys.stdout = open(os.devnull, "w")
    sys.stderr = open(os.devnull, "w")
    try:
        runpy.run_path(script_path, run_name="__main__")
        state.setdefault("outcome", "target-not-called")
    except Done:
        pass
    except BaseException as exc:  # noqa: BLE001
        state.setdefault("outcome", "script-error")
        state["script_exc"] = f"{type(exc).__name__}: {exc}"[:200]
    finally:
        sys.stdout, sys.stderr = stdout, stderr
        subprocess.run = real_run
        tempfile.mkdtemp = real_mkdtemp
        pathlib.Path.write_text = real_write_text
        pathlib.Path.mkdir = real_mkdir
    if cfg.get("second") and state.get("outcome") == "returned":
        # history: rewrite the same path and call target() again in this process
        st0 = os.stat(script_path)
        with open(script_path, "w", encoding="utf-8") as f:
            f.write(cfg["second"])
        if cfg.get("second_same_stat"):
            os.utime(script_path, ns=(st0.st_atime_ns, st0.st_mtime_ns))
        p2 = parse(cfg["second"])
        sec = {"expected_cpp": emit(p2), "expected_libs": Reduino._collect_required_libraries(p2)}
        first_state = dict(state)
        state.clear()
        subprocess.run = fake_run
        tempfile.mkdtemp = fake_mkdtemp
        try:
            runpy.run_path(script_path, run_name="__main__")
        except Done:
            pass
        except BaseException as exc:  # noqa: BLE001
            sec["error"] = repr(exc)[:200]
        finally:
            subprocess.run = real_run
            tempfile.mkdtemp = real_mkdtemp
        sec["ret"] = state.get("ret") if isinstance(state.get("ret"), str) else repr(state.get("ret"))
        ini = ""
        if made:
            try:
                ini = open(os.path.join(made[-1], "platformio.ini"), encoding="utf-8").read()
            except OSError:
                ini = ""
        sec["libs_written"] = [x.strip() for x in ini.split("lib_deps =")[1].splitlines() if x.strip()] if "lib_deps =" in ini else []
        out["second"] = sec
        state.clear()
        state.update(first_state)
    if cfg.get("repeat"):
        # history: the very same call again in this process (same faults): it must behave exactly like the first one
        first_state = dict(state)
        n_eff = len(effects)
        state.clear()
        subprocess.run = fake_run
        tempfile.mkdtemp = fake_mkdtemp
        pathlib.Path.write_text = fake_write_text
        pathlib.Path.mkdir = fake_mkdir
        try:
            runpy.run_path(script_path, run_name="__main__")
            state.setdefault("outcome", "target-not-called")
        except Done:
            pass
        except BaseException as exc:  # noqa: BLE001
            state.setdefault("outcome", "script-error")
        finally:
            subprocess.run = real_run
            tempfile.mkdtemp = real_mkdtemp
            pathlib.Path.write_text = real_write_text
            pathlib.Path.mkdir = real_mkdir
        out["repeat"] = {"outcome": state.get("outcome"), "exc_type": state.get("exc_type"), "exc_msg": state.get("exc_msg"),
                         "effects": [e[:2] for e in effects[n_eff:]],
                         "first_outcome": first_state.get("outcome"), "first_exc_type": first_state.get("exc_type"),
                         "first_effects": [e[:2] for e in effects[:n_eff]],
                         "same_return": state.get("ret") == first_state.get("ret")}
        state.clear()
        state.update(first_state)
    out.update(state)
    ret = state.get("ret")
    out["ret_is_str"] = isinstance(ret, str)
    out["ret"] = ret if isinstance(ret, str) else repr(ret)
    files = {}
    for d in made:
        for root, _dirs, fs in os.walk(d):
            for fn in fs:
                p = os.path.join(root, fn)
                try:
                    files[os.path.relpath(p, d)] = open(p, encoding="utf-8").read()
                except Exception as exc:  # noqa: BLE001
                    files[os.path.relpath(p, d)] = f"<unreadable {exc}>"
    out["files"] = files
    out["project_dirs"] = made
    shutil.rmtree(workroot, ignore_errors=True)
    json.dump(out, open(sys.argv[2], "w"))


if __name__ == "__main__":
    main()
