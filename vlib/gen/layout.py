"""Meaning-preserving re-layouts of a script (the Python parser is the oracle that they mean the same)."""
from __future__ import annotations

import ast
import io
import tokenize

COMMENTS = ["# note", "# main loop", "#", "# if x: y = 1", "# while True:", "#    indented text", "# else:", "# \"quote\" 'q'", "# def f():",
            "# open (bracket", "# list [a, b", "# {brace", "# )]}", "# it's", "# back\\", "# mon.write(", "# f\"{x\""]


def same_python(a: str, b: str) -> bool:
    try:
        return ast.dump(ast.parse(a)) == ast.dump(ast.parse(b))
    except SyntaxError:
        return False


def line_indent(line: str) -> int:
    return len(line) - len(line.lstrip(" "))


def op_comment_lines(lines, rng):
    """Insert comment-only lines at random positions, at column 0 / the block's indent / deeper."""
    out = list(lines)
    for _ in range(rng.randint(1, 4)):
        pos = rng.randint(0, len(out))
        ref = next((l for l in out[pos:] if l.strip()), "")
        ind = line_indent(ref)
        col = rng.choice([0, ind, ind + 4, max(0, ind - 4), ind + 1])
        out.insert(pos, " " * col + rng.choice(COMMENTS))
    return out


def op_trailing_comments(lines, rng, headers_only=False):
    out = []
    for l in lines:
        s = l.strip()
        is_header = s.endswith(":") and s.split()[0] in ("while", "if", "elif", "else:", "for", "def", "try:", "except", "except:") if s else False
        if s and not s.startswith("#") and "#" not in l and '"""' not in l and not l.rstrip().endswith("\\"):
            p = 0.9 if (headers_only and is_header) else (0.0 if headers_only else 0.3)
            if rng.random() < p:
                l = l.rstrip() + rng.choice(["  ", " ", "    ", "\t"]) + rng.choice(COMMENTS)
        out.append(l)
    return out


def op_blank_lines(lines, rng):
    out = []
    for l in lines:
        if rng.random() < 0.2:
            out.extend([""] * rng.randint(1, 2) if rng.random() < 0.7 else ["    "])
        out.append(l)
    return out


def op_reindent(lines, rng):
    """Change the indentation unit (base scripts use 4 spaces) to 1-8 spaces or tabs, consistently."""
    unit = rng.choice([" ", "  ", "   ", "     ", "      ", "        ", "\t", "  ", "\t"])
    out = []
    for l in lines:
        n = line_indent(l)
        if n % 4 != 0 or not l.strip():
            out.append(l)
            continue
        out.append(unit * (n // 4) + l[n:])
    return out


def op_trailing_ws(lines, rng):
    return [l + rng.choice(["", " ", "   ", "\t"]) if l.strip() and not l.rstrip().endswith("\\") else l for l in lines]


def op_token_spacing(lines, rng):
    """Add optional spaces between tokens of a line (never inside strings, never before the first token)."""
    src = "\n".join(lines) + "\n"
    try:
        toks = list(tokenize.generate_tokens(io.StringIO(src).readline))
    except (tokenize.TokenError, IndentationError, SyntaxError):
        return lines
    new = list(lines)
    by_line = {}
    for t in toks:
        if t.type in (tokenize.NEWLINE, tokenize.NL, tokenize.INDENT, tokenize.DEDENT, tokenize.ENDMARKER, tokenize.COMMENT):
            continue
        if t.start[0] != t.end[0]:
            by_line[t.start[0]] = None  # multi-line token: leave the line alone
            continue
        if by_line.get(t.start[0], []) is None:
            continue
        by_line.setdefault(t.start[0], []).append(t)
    for ln, ts in by_line.items():
        if not ts or rng.random() < 0.5:
            continue
        line = lines[ln - 1]
        if "#" in line:
            continue
        pieces = [line[: ts[0].start[1]]]
        for i, t in enumerate(ts):
            pieces.append(t.string)
            if i + 1 < len(ts):
                gap = line[t.end[1]: ts[i + 1].start[1]]
                nxt = ts[i + 1]
                # a space may be added between any two tokens where at least one is an operator / bracket / dot / comma
                if (t.type == tokenize.OP or nxt.type == tokenize.OP) and rng.random() < 0.4:
                    # (also before the parenthesis of a call - `led.on ()`, `sleep (5)`, `def f (a):` - and around the dot of a method
                    # call; not before a subscript bracket, which the statement does not list)
                    if not (nxt.string == "[" and t.type != tokenize.OP) and not (t.string in ("-", "+", "~") and gap == ""):
                        gap = gap + " "
                pieces.append(gap)
        pieces.append(line[ts[-1].end[1]:])
        new[ln - 1] = "".join(pieces)
    return new


NOOP_LINES = ["\"\"\"One line.\"\"\"  # with a comment", "'''x'''  # noqa", "pass", "\"\"\"a docstring\"\"\"", "'note'", "0", "...", "None", "pass  # nothing"]


def _inside_def(lines, pos, ind):
    cur = ind
    for l in reversed(lines[:pos]):
        if not l.strip() or l.strip().startswith("#"):
            continue
        n = line_indent(l)
        if n < cur:
            cur = n
            if l.strip().startswith("def "):
                return True
        if cur == 0:
            break
    return False


def op_noop_lines(lines, rng):
    """Insert statements that do nothing (pass, constant expressions, imports the script already has at its top) at the
    indent of the statement that follows - inside blocks and functions too (imports only outside function bodies)."""
    out = list(lines)
    imports = [l.strip() for l in lines if line_indent(l) == 0 and (l.startswith("from Reduino") or l.startswith("import Reduino")) and "target" not in l]
    for _ in range(rng.randint(1, 4)):
        pos = rng.randint(1, len(out))
        ref = next((l for l in out[pos:] if l.strip() and not l.strip().startswith("#")), None)
        if ref is None:
            ind = 0
        else:
            ind = line_indent(ref)
            if ref.strip().split()[0].rstrip(":") in ("else", "elif", "except", "finally"):
                continue
        pool = list(NOOP_LINES)
        if imports and not _inside_def(out, pos, ind):
            pool += imports + imports
        out.insert(pos, " " * ind + rng.choice(pool))
    return out


class _StripNoops(ast.NodeTransformer):
    def generic_visit(self, node):
        super().generic_visit(node)
        for field in ("body", "orelse", "finalbody"):
            b = getattr(node, field, None)
            if isinstance(b, list) and b and isinstance(b[0], ast.stmt):
                kept = [x for x in b if not (isinstance(x, (ast.Pass, ast.Import, ast.ImportFrom)) or (isinstance(x, ast.Expr) and isinstance(x.value, ast.Constant)))]
                setattr(node, field, kept or [ast.Pass()])
        return node


def same_python_modulo_noops(a: str, b: str) -> bool:
    try:
        ta, tb = _StripNoops().visit(ast.parse(a)), _StripNoops().visit(ast.parse(b))
        return ast.dump(ta) == ast.dump(tb)
    except SyntaxError:
        return False


OPS = {
    "noop-lines": op_noop_lines,
    "comment-lines": op_comment_lines,
    "trailing-comments": op_trailing_comments,
    "header-comments": lambda l, r: op_trailing_comments(l, r, headers_only=True),
    "blank-lines": op_blank_lines,
    "reindent": op_reindent,
    "trailing-ws": op_trailing_ws,
    "token-spacing": op_token_spacing,
}


def relayout(src: str, rng, ops=None):
    """Apply one or several operators; returns (new_src, ops_applied) or None when Python no longer sees the same program."""
    names = ops or rng.sample(sorted(OPS), rng.randint(1, 3))
    lines = src.splitlines()
    for n in names:
        lines = OPS[n](lines, rng)
    new = "\n".join(lines) + "\n"
    same = same_python_modulo_noops(src, new) if "noop-lines" in names else same_python(src, new)
    if new == src or not same:
        return None
    return new, names
