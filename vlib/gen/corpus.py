"""Script corpora shared by the pure-Python checks (C07, C10, C11, C14 ...)."""
from __future__ import annotations

from ..common import rng_for
from . import prog

HDR = """from Reduino import target
target("COM3")
from Reduino.Actuators import Led, RGBLed, Servo, DCMotor, Buzzer
from Reduino.Communication import SerialMonitor
from Reduino.Displays import LCD
from Reduino.Sensors import Button, Potentiometer, Ultrasonic
from Reduino.Utils import sleep
from Reduino.Core import pin_mode, digital_write, analog_write, digital_read, analog_read, OUTPUT, INPUT, HIGH, LOW

mon = SerialMonitor(9600)
"""


def promotion_scripts(rng, n):
    """Scripts with several names first assigned inside one branch / loop / try (unordered collections feed
    the order of hoisted declarations)."""
    out = []
    for k in range(n):
        names = [f"{rng.choice('abcdefghjkmnpqrstuvwxyz')}{rng.choice('abcdefghijk')}{i}" for i in range(rng.randint(2, 6))]
        rng.shuffle(names)
        kind = k % 5
        lines = [HDR, "c = analog_read(0)"]
        body = [f"    {nm} = {rng.randint(0, 9)}" for nm in names]
        if kind == 0:
            lines += ["if c > 3:"] + body + ["else:"] + [f"    {nm} = 1" for nm in reversed(names)]
        elif kind == 1:
            lines += ["for i in range(3):"] + body + ["    if i > 1:"] + [f"        z{nm} = i" for nm in names]
        elif kind == 2:
            lines += ["w = 3", "while w > 0:", "    w -= 1", "    if w == 1:"] + [f"    {b}" for b in body]
        elif kind == 3:
            lines += ["try:"] + body + ["except:"] + [f"    {nm} = 2" for nm in names[::-1]]
        else:
            lines += ["while True:", "    if c > 3:"] + [f"    {b}" for b in body] + ["    elif c > 1:"] + \
                     [f"        {nm} = 7" for nm in names[::-1]] + ["    sleep(5)"]
        if kind != 4:
            lines += [f"mon.write({nm})" for nm in names]
        out.append("\n".join(lines) + "\n")
    return out


def device_scripts(rng, n):
    """Scripts with several LCDs/buttons/ultrasonic sensors/animations (sorted() / dict-order dependent emission)."""
    out = []
    for k in range(n):
        lines = [HDR]
        nb = rng.randint(1, 3)
        nu = rng.randint(0, 2)
        nl = rng.randint(0, 2)
        names = []
        lines.append("def on_a():\n    mon.write(\"click\")\n")
        for i in range(nb):
            nm = rng.choice(["btn", "key", "sw", "b"]) + str(rng.randint(0, 99)) + "x" * i
            lines.append(f"{nm} = Button({2 + i}" + (", on_click=on_a" if rng.random() < 0.5 else "") + ")")
            names.append(("btn", nm))
        for i in range(nu):
            nm = rng.choice(["us", "sonar", "dist"]) + str(rng.randint(0, 99)) + "y" * i
            lines.append(f"{nm} = Ultrasonic({6 + 2 * i}, {7 + 2 * i})")
            names.append(("us", nm))
        for i in range(nl):
            nm = rng.choice(["lcd", "panel", "disp"]) + str(rng.randint(0, 99)) + "z" * i
            if rng.random() < 0.5:
                lines.append(f"{nm} = LCD(i2c_addr={0x27 + i}, cols=16, rows=2)")
            else:
                lines.append(f"{nm} = LCD(rs=12, en=11, d4=5, d5=4, d6=3, d7=2)")
            for _ in range(rng.randint(1, 2)):
                lines.append(f"{nm}.animate(\"{rng.choice(['scroll', 'blink', 'typewriter', 'bounce'])}\", {rng.randint(0, 1)}, \"hello\", speed_ms={rng.choice([0, 50, 200])}, loop={rng.choice(['True', 'False'])})")
            names.append(("lcd", nm))
        lines.append("servo = Servo(9)")
        lines.append("led = Led(13)")
        lines.append("while True:")
        for kind, nm in names:
            if kind == "btn":
                lines.append(f"    if {nm}.is_pressed():\n        led.toggle()")
            elif kind == "us":
                lines.append(f"    mon.write({nm}.measure_distance())")
        lines.append("    servo.write(90)")
        lines.append("    sleep(10)")
        out.append("\n".join(lines) + "\n")
    return out


def lcd_scripts(rng, n):
    """LCD text / glyph / progress scripts (emitter-side counters: glyph arrays, animation states)."""
    out = []
    for k in range(n):
        L = [HDR, "lcd = LCD(rs=12, en=11, d4=5, d5=4, d6=3, d7=2, backlight_pin=9)"]
        if rng.random() < 0.5:
            L.append("panel = LCD(i2c_addr=39, cols=20, rows=4)")
        for _ in range(rng.randint(1, 4)):
            L.append(f"lcd.glyph({rng.randint(0, 7)}, {[rng.randint(0, 31) for _ in range(8)]})")
            if "panel" in L[-2 if len(L) > 2 else 0] or rng.random() < 0.3 and any("panel" in x for x in L):
                L.append(f"panel.glyph({rng.randint(0, 7)}, {[rng.randint(0, 31) for _ in range(8)]})")
        L.append("lcd.line(0, \"glyphs\")")
        L.append(f"lcd.progress(1, {rng.randint(0, 100)}, label=\"L\")")
        L.append("while True:")
        L.append(f"    lcd.glyph(1, {[rng.randint(0, 31) for _ in range(8)]})")
        L.append("    sleep(20)")
        out.append("\n".join(L) + "\n")
    return out


STRING_LINES = ['mon.write("dir C:\\\\")', 'mon.write("a # not a comment")', "mon.write('single # quoted')", 'mon.write("quote \\" inside # x")',
                'lcd_text = "tail\\\\"', 'mon.write("50% # done")', 'mon.write("x")  # real comment', 'mon.write("back\\\\slash # mid")']


def string_scripts(rng, n):
    """Device calls whose string arguments contain '#', quotes and trailing backslashes (comment stripping)."""
    out = []
    for k in range(n):
        L = [HDR, "led = Led(13)"]
        lines = rng.sample(STRING_LINES, rng.randint(2, 5))
        L += lines[:2]
        L.append("while True:")
        for x in lines[2:] or lines[:1]:
            L.append("    " + x)
        L.append("    led.toggle()")
        L.append("    sleep(10)")
        out.append("\n".join(L) + "\n")
    return out


def context_scripts(rng, n):
    """Scripts that share an identical helper text but differ in the surrounding context (history/memo leaks), ports with '~',
    run-time len() together with lists (both helper snippets)."""
    out = []
    helper = "def pick(flag):\n    return limit if flag else 0\n"
    for k in range(n):
        lim = ["10", "2.5", "7", "0.25"][k % 4]
        port = ["COM3", "~/dev/arduino", "~root/ttyACM0", "/dev/ttyUSB0"][k % 4]
        L = ["from Reduino import target", f'target("{port}")', "from Reduino.Communication import SerialMonitor", "from Reduino.Sensors import Ultrasonic",
             "mon = SerialMonitor(9600)", f"limit = {lim}", helper, "level = pick(True)", "mon.write(level)"]
        if k % 2 == 0:
            L += ["us = Ultrasonic(2, 3)", "items = [q for q in range(3)]", "text = mon.read()", "while True:", "    mon.write(us.measure_distance())",
                  "    mon.write(len(text))", "    mon.write(len(items))", "    mon.write(items[0])"]
        elif k % 4 == 1:
            # run-time len() of a String in a script without any list (only the len helper snippet is needed)
            L += ["text = mon.read()", "mon.write(len(text))", "while True:", "    line = mon.read()", "    mon.write(len(line) + 1)", "    sleep(5)"]
        out.append("\n".join(L) + "\n")
    return out


def collision_scripts(rng, n, conflicting_returns=True, shadow_helpers=True):
    """Families of scripts that share identifiers, helper names + parameter lists, literal texts and tune names but differ in
    what those mean: anything remembered from one transpilation (memo tables keyed by name/signature/text, shared tables
    mutated in place) or iterated in set order (mixed bool/int operand sets) shows as a different output for a later script."""
    out = []
    bodies = ["return v * 2", "return v * 0.5", "return v + 100", "t = v\n    return t", "return v - 1.5", "return 3"]
    tunes = ["error", "success", "notify", "siren", "alarm"]
    prev_tune = None
    for k in range(n):
        kind = k % 7
        L = [HDR.rstrip("\n")]
        if kind == 0:
            # same helper name / parameter text / call signatures, different bodies
            b1, b2 = rng.sample(bodies, 2)
            arg = rng.choice(["1.5", "3", '"ab"' if "0.5" not in b1 + b2 and "1.5" not in b1 + b2 and "100" not in b1 + b2 and "* 2" not in b1 + b2 else "2.5"])
            # (float arguments go through variables: a double LITERAL passed to a helper that also has an int overload is
            # ambiguous in C++ - known finding KF-overload-double-literal)
            L += ["fa = 1.5", "fb = 0.25", f"def scale(v):\n    {b1}", f"def ready(v):\n    {b2}", f"reading = scale({'fa' if '.' in arg else arg})", "mon.write(reading)",
                  "margin = ready(3)", "mon.write(margin)", f"again = scale({rng.choice(['2', 'fb'])})", "mon.write(again)"]
        elif kind == 1:
            # the same tune from setup(), from the main loop, from a helper; explicit / default / run-time tempo
            tune = rng.choice(tunes)
            where = ["loop", "setup", "def", "setup-tempo", "loop-tempo"][(k // 7) % 5]
            if (k // 7) % 5 == 1:
                tune = prev_tune or tune   # the same tune from setup() right after it was played from the main loop
            prev_tune = tune
            L += ["bz = Buzzer(8)"]
            if where == "setup":
                L += [f'bz.melody("{tune}")']
            elif where == "setup-tempo":
                L += [f'bz.melody("{tune}", tempo={rng.choice([100, 90, 300])})', f'bz.melody("{tune}")']
            elif where == "def":
                L += [f'def jingle():\n    bz.melody("{tune}")\n    return 1', "q = jingle()"]
            elif where == "loop":
                L += ["while True:", f'    bz.melody("{tune}")', "    sleep(100)"]
            else:
                L += ["tp = 150", "while True:", f'    bz.melody("{tune}", tempo=tp)', f'    bz.melody("{tune}", tempo={rng.choice([60, 240])})', "    sleep(100)"]
        elif kind == 2:
            # textually identical list / str literals, one of them mutated
            lit = rng.choice(["[1, 0, 1]", "[5, 6]", "[1, 0, 128, 0]"])
            L += ["led = Led(5)", f"a = {lit}", f"b = {lit}"]
            if rng.random() < 0.6:
                L += [f"a.append({rng.choice([0, 1, 64])})"]
            if rng.random() < 0.4:
                L += [f"a.remove({lit[1]})"]
            L += ["mon.write(len(a))", "mon.write(len(b))", "led.flash_pattern(b, 20)", "for i in range(len(b)):", "    mon.write(b[i])"]
        elif kind == 3:
            # min/max/abs over operands of different non-float types
            L += ["led = Led(5)", "level = analog_read(0)", "lit = led.get_state()", f"top = {rng.choice(['max', 'min'])}(lit, level)", "mon.write(top)",
                  f"low = {rng.choice(['max', 'min'])}(level, lit, {rng.choice(['True', '1'])})", "mon.write(low)", "flag = abs(lit)", "mon.write(flag)"]
        elif kind == 4:
            # same names, different types from script to script
            t = rng.choice(["int", "float", "str", "bool"])
            v = {"int": "3", "float": "2.5", "str": '"ab"', "bool": "True"}[t]
            L += [f"value = {v}", "def show(x):\n    mon.write(x)\n    return x", "kept = show(value)", "other = value", "mon.write(other)",
                  "for i in range(2):", f"    inner = {v}", "    mon.write(inner)"]
        elif kind == 6:
            # several buttons whose pins tie (one physical pin, or pins only known at run time): their polls keep a fixed order
            names = rng.sample(["btn_up", "b", "zz_stop", "alpha", "key9", "Select", "_esc", "btn_down", "ok"], 3)
            pin_form = rng.choice(["same", "runtime"])
            L += ["def hit():\n    mon.write(\"hit\")", "def other():\n    mon.write(\"other\")"]
            if pin_form == "runtime":
                L += ["base = analog_read(0) % 2 + 2"]
            for j, nm in enumerate(names):
                pin = "2" if pin_form == "same" else f"base + {j}"
                cb = ["", ", on_click=hit", ", on_click=other"][j % 3]
                L += [f"{nm} = Button({pin}{cb})"]
            L += ["while True:", f"    mon.write({names[0]}.is_pressed())", "    sleep(10)"]
        else:
            # glyph / pattern / device state names reused with other contents
            rows = [rng.choice([0, 31, 17, 4]) for _ in range(8)]
            L += ["lcd = LCD(rs=12, en=11, d4=5, d5=4, d6=3, d7=2)", f"lcd.glyph({rng.randint(0, 7)}, {rows})",
                  f'lcd.animate("{rng.choice(["scroll", "blink", "bounce", "typewriter"])}", 0, "{rng.choice(["hi", "Reduino rocks"])}", speed_ms={rng.choice([50, 200])}, loop={rng.choice(["True", "False"])})',
                  "while True:", "    sleep(10)"]
        out.append("\n".join(L) + "\n")
    # a user function named like a helper the transpiler knows, then an unrelated script that uses the real helper
    for nm, victim in (("max", "m = max(3, analog_read(0))"), ("min", "m = min(3, analog_read(0))"), ("abs", "m = abs(analog_read(0) - 5)"),
                       ("len", "m = len(\"abc\" + str(analog_read(0)))"), ("int", "m = int(analog_read(0) / 2)"), ("round", "m = round(analog_read(0) / 3)"),
                       ("float", "m = float(analog_read(0))"), ("str", "m = str(analog_read(0))")) if shadow_helpers else ():
        out.append(HDR + f"def {nm}(a, b):\n    return a * 1.5\nr = {nm}(2, 3)\nmon.write(r)\n")
        out.append(HDR + victim + "\nmon.write(m)\nk = m\nmon.write(k)\n")
        out.append(HDR + f"def {nm}(a):\n    return \"s\" + a\nr = {nm}(\"x\")\nmon.write(r)\n")
        out.append(HDR + victim + "\nmon.write(m)\n")
    # a script that is REJECTED half-way (whatever it registered until then must be gone), then an accepted one sharing its names
    bad_good = [
        ("def mix(a, b):\n    return a + b\nr = mix(0.5)\nmon.write(r)\n", "def mix(a):\n    return a * 2\nr = mix(0.5)\nmon.write(r)\n"),
        ("def mix(a):\n    return a * 2\nq = mix(0.5)\nwhile True:\n    break\n", "def mix(a):\n    return a * 2\nq = mix(0.5)\nmon.write(q)\n"),
        ("bz = Buzzer(8)\ndef tune(k):\n    bz.melody(\"no-such-tune\")\n    return k\nz = tune(1)\n", "bz = Buzzer(8)\ndef tune(k):\n    bz.melody(\"siren\")\n    return k\nz = tune(1.5)\nmon.write(z)\n"),
        ("lv = [1, 2, 3]\nlv.append(4)\nreturn 5\n", "lv = [1, 2, 3]\nmon.write(len(lv))\n"),
        ("def area(w, h):\n    return w * h\nbig = area(2.5, 2)\nled = Led(13)\nled.blink(5, times=1, oops=2, )\nsv = Servo(6, min_angle=90, max_angle=10)\n", "def area(w, h):\n    return w * h\nbig = area(2, 2)\nmon.write(big)\n"),
    ]
    for bad, good in bad_good if shadow_helpers else ():
        out += [HDR + good, HDR + bad, HDR + good]
    # the same number once as a default, once written out, once as the other numeric type (100 / 100.0 / True / 1)
    for a, b in (("bz = Buzzer(8)\nbz.beep()\n", "bz = Buzzer(8)\nbz.beep(880, on_ms=100)\n"), ("bz = Buzzer(8)\nbz.beep(880, on_ms=100.0)\n", "bz = Buzzer(8)\nbz.beep(880, on_ms=100)\n"),
                 ("led = Led(13)\nled.blink(500)\n", "led = Led(13)\nled.blink(500.0, times=1)\n"), ("sleep(100)\n", "sleep(100.0)\n"), ("sv = Servo(6)\nsv.write(90)\n", "sv = Servo(6)\nsv.write(90.0)\n"),
                 ("lcd = LCD(i2c_addr=39)\nlcd.progress(0, 50)\n", "lcd = LCD(i2c_addr=39)\nlcd.progress(0, 50.0, max_value=100)\n"), ("led = Led(13)\nled.set_brightness(1)\n", "led = Led(13)\nled.set_brightness(True)\n"),
                 ("m = DCMotor(2, 4, 5)\nm.set_speed(1)\n", "m = DCMotor(2, 4, 5)\nm.set_speed(1.0)\nm.set_speed(True)\n")) if shadow_helpers else ():
        out += [HDR + b, HDR + a, HDR + b, HDR + a]
    # every kind the emitter hoists out of the main loop, declared at the top of its body (a Program is emitted twice by the digest)
    out += [HDR + "while True:\n    sv = Servo(9)\n    sv.write(10)\n    sleep(5)\n", HDR + "lcd = LCD(i2c_addr=39)\nwhile True:\n    led = Led(13)\n    sv = Servo(9)\n    m = DCMotor(2, 4, 5)\n    led.toggle()\n    sv.write(1)\n    sleep(5)\n",
            HDR + "while True:\n    b = Button(2)\n    p = Potentiometer(\"A0\")\n    u = Ultrasonic(7, 8)\n    r = RGBLed(9, 10, 11)\n    mon.write(p.read())\n    sleep(5)\n"]
    # an expression deep enough to exhaust the interpreter's recursion limit inside the transpiler (rejected or not: no trace may stay)
    out += [HDR + "total = " + " + ".join(f"r{i}" for i in range(700)) + "\n", HDR + "mon.write(" + " + ".join(["1"] * 1200) + ")\n"] if shadow_helpers else []
    # helpers with the same names but another call graph / other devices behind the same text
    out += [HDR + "def first():\n    return flash(1)\ndef flash(n):\n    return n\nq = first()\n", HDR + "def first():\n    return 1\ndef flash(n):\n    return n + 1\nq = first()\nw = flash(2)\nmon.write(w)\n",
            HDR + "lamp = Led(13)\ndef wake():\n    lamp.on()\n    return 1\nq = wake()\n", HDR + "lamp = RGBLed(9, 10, 11)\ndef wake():\n    lamp.on()\n    return 1\nq = wake()\n",
            HDR + "def quiet():\n    bz.stop()\n    return 0\nbz = Buzzer(8)\nq = quiet()\n", HDR + "bz = Buzzer(8)\ndef quiet():\n    bz.stop()\n    return 0\nq = quiet()\n",
            HDR + "lamp = Led(13)\ndef wake():\n    lamp.on()\n    return 1\nq = wake()\n"] if shadow_helpers else []
    # one helper called with three or more argument-type shapes, some of which fold into the same specialisation because the body
    # coerces a parameter (the set of specialisations and their order must not depend on set iteration)
    for body, calls in (("return value + \": \"", ["tag(1, 2)", "tag(\"x\", 2)", "tag(1, 2.5)", "tag(\"y\", 0.5)", "tag(2.5, 1)"]),
                        ("n = n + 0.5\n    return n", ["tag(1, 2)", "tag(1, 2.5)", "tag(1.5, 2)", "tag(\"s\", 2)", "tag(True, 2)"]),
                        ("return n", ["tag(1, 1)", "tag(1.5, 1)", "tag(\"a\", 1)", "tag(True, 1)", "tag([1], 1)", "tag(1, 1.5)", "tag(1, \"b\")"])) if shadow_helpers else ():
        for order in (calls, list(reversed(calls)), calls[2:] + calls[:2]):
            out.append(HDR + f"def tag(value, n):\n    {body}\n" + "\n".join(f"r{i} = {c}" for i, c in enumerate(order)) + "\n")
    # helpers whose return statements disagree on the type (rejected today: whatever happens instead must not depend on set order)
    for a, b in (("[1, 2, 3]", "[0.5, 1.5, 2.5]"), ("[1, 2]", '["a", "b"]'), ('"a"', "2.5"), ("True", "[1]")) if conflicting_returns else ():
        out.append(HDR + f"def pick(k):\n    if k > 0:\n        return {a}\n    elif k < 0:\n        return {b}\n    return {a}\nxs = pick(1)\nys = pick(-1)\n")
    return out


def helper_only_scripts():
    """Devices whose methods are called ONLY from helper functions / button callbacks (never from setup or loop code directly):
    whatever support code the calls need still has to be part of the sketch."""
    out = []
    lcd = "lcd = LCD(rs=12, en=11, d4=5, d5=4, d6=3, d7=2)\n"
    out.append(HDR + lcd + "def show(v):\n    lcd.line(0, \"value\")\n    lcd.progress(1, v, 100)\n    return v\nq = show(30)\nmon.write(q)\n")
    out.append(HDR + lcd + "def refresh():\n    lcd.write(0, 0, \"hi\", align=\"right\")\n    lcd.message(\"a\", \"b\")\n\nbtn = Button(2, on_click=refresh)\nwhile True:\n    sleep(10)\n")
    out.append(HDR + "lcd = LCD(i2c_addr=39)\ndef banner():\n    lcd.line(1, \"x\", align=\"center\")\n    return 1\nwhile True:\n    z = banner()\n    sleep(50)\n")
    out.append(HDR + "bz = Buzzer(8)\ndef chirp():\n    bz.melody(\"success\")\n    bz.beep(440, times=2)\n    return 1\nq = chirp()\n")
    out.append(HDR + "sv = Servo(9)\nmot = DCMotor(2, 4, 5)\ndef park():\n    sv.write(0)\n    mot.stop()\n    return 0\nbtn = Button(3, on_click=park)\nwhile True:\n    sleep(5)\n")
    out.append(HDR + "items = [1, 2, 3]\ndef total(xs):\n    acc = 0\n    for i in range(len(xs)):\n        acc = acc + xs[i]\n    return acc\nt = total(items)\nmon.write(t)\n")
    out.append(HDR + "def ramp(top):\n    levels = [k * 2 for k in range(top)]\n    return levels\nlv = ramp(3)\nmon.write(lv[1])\n")
    # helpers that call helpers: used in an expression / only ever as a statement / both, defined before their callers
    out.append(HDR + "def report(x):\n    mon.write(x)\n\ndef scale(v):\n    report(v)\n    return v * 2\ny = scale(3)\nmon.write(y)\n")
    out.append(HDR + "def low(x):\n    return x + 1\n\ndef note(x):\n    mon.write(low(x))\n\ndef top(v):\n    note(v)\n    note(v + 1)\n    return low(v) * 2\nnote(1)\nz = top(2)\nmon.write(z)\n")
    out.append(HDR + "def beep_twice():\n    mon.write(\"b\")\n    mon.write(\"b\")\n\ndef cycle(n):\n    for k in range(n):\n        beep_twice()\n    return n\nwhile True:\n    c = cycle(2)\n    sleep(20)\n")
    out.append(HDR + "us = Ultrasonic(2, 3)\npot = Potentiometer(\"A0\")\ndef sense():\n    d = us.measure_distance()\n    return d + pot.read()\nwhile True:\n    r = sense()\n    mon.write(r)\n    sleep(60)\n")
    return out


def main_loop_break_scripts():
    """`break` / `continue` that would leave or restart the MAIN loop (loop() has no enclosing C++ loop): rejected, or else compilable."""
    variants = [
        "while True:\n    mon.write(1)\n    break\n",
        "while True:\n    if count > 2:\n        break\n    count += 1\n",
        "while True:\n    count += 1\n    if count > 1:\n        if count > 2:\n            break\n",
        "while True:\n    try:\n        break\n    except:\n        count = 0\n",
        "while True:\n    count += 1\n    if count > 5:\n        count = 0\n    elif count > 3:\n        break\n    else:\n        mon.write(count)\n",
        "while True:\n    count += 1\n    if count > 5:\n        count = 0\n    else:\n        break\n",
        "while True:\n    for i in range(3):\n        if i == 1:\n            break\n        mon.write(i)\n    sleep(5)\n",
        "while True:\n    w = 3\n    while w > 0:\n        w -= 1\n        if w == 1:\n            break\n    sleep(5)\n",
    ]
    return [HDR + "count = 0\n" + v for v in variants]


def declared_in_block_scripts():
    """The only SerialMonitor of the script is declared inside a compound statement or a helper and used there / afterwards:
    the port has to be opened (at that baud rate) before the first line is printed.
    (Led / RGBLed / Servo / ... declared inside a block are outside the documented style - their state globals are only
    created for top-level declarations and the sketch does not compile; a SerialMonitor has no such globals.)"""
    hdr = HDR.replace("mon = SerialMonitor(9600)\n", "")
    out = []
    wraps = [("if 1 == 1:", ""), ("try:", "except:\n    pass\n"), ("for once in range(1):", ""), ("w = 1\nwhile w > 0:\n    w -= 1", "")]
    for head, tail in wraps:
        out.append(hdr + f"{head}\n    log = SerialMonitor(115200)\n{tail}log.write(\"ready\")\nlog.write(7)\n")
    out.append(hdr + "def start():\n    port = SerialMonitor(57600)\n    port.write(\"up\")\n    return 1\nq = start()\nr = start()\n")
    out.append(hdr + "count = 0\nwhile True:\n    count += 1\n    if count > 0:\n        chan = SerialMonitor(9600)\n        chan.write(count)\n    sleep(5)\n")
    out.append(hdr + "count = 0\nwhile True:\n    count += 1\n    for once in range(1):\n        chan = SerialMonitor(19200)\n        chan.write(count)\n    sleep(5)\n")
    return out


def mixed(seed_parts, n_prog=30, n_promo=20, n_dev=10):
    rng = rng_for(*seed_parts, "corpus")
    scripts = [prog.generate((*seed_parts, "corpus", i), "clean")["source"] for i in range(n_prog)]
    scripts += promotion_scripts(rng, n_promo)
    scripts += device_scripts(rng, n_dev)
    scripts += lcd_scripts(rng, max(3, n_dev // 2))
    scripts += string_scripts(rng, max(3, n_dev // 2))
    scripts += context_scripts(rng, max(8, n_dev))
    scripts += collision_scripts(rng, max(28, 3 * n_dev))
    return scripts


HOUSEKEEPING_LINES = ["pass", "from Reduino.Core import pin_mode, OUTPUT", "from Reduino.Core import *", "from Reduino.Sensors import Potentiometer",
                      "from Reduino.Sensors import Button, Ultrasonic", "from Reduino.Actuators import Led", "from Reduino.Actuators import *", "import Reduino",
                      "import Reduino.Core", "from Reduino.Utils import sleep", "from Reduino.Utils import map as remap", "from Reduino import target",
                      "from Reduino.Displays import LCD", "from Reduino.Communication import SerialMonitor", "target(\"COM3\")", "print(\"x\")",
                      "\"\"\"doc\"\"\"", "'s'", "42", "# c", "...", "None", "import os", "from math import pi", "from . import x", "import"]
HOUSEKEEPING_CTX = {
    "top": "{A}\n{L}\n{B}\n", "if": "if analog_read(0) > 3:\n    {A}\n    {L}\n    {B}\n", "main-loop": "while True:\n    {A}\n    {L}\n    {B}\n",
    "def": "def f():\n    {A}\n    {L}\n    {B}\n    return 1\nq = f()\n", "for": "for i in range(2):\n    {A}\n    {L}\n    {B}\n",
    "try": "try:\n    {A}\n    {L}\n    {B}\nexcept:\n    {A}\n", "except": "try:\n    {A}\nexcept:\n    {L}\n    {B}\n",
    "else": "if analog_read(0) > 3:\n    {A}\nelse:\n    {L}\n    {B}\n", "while": "w = 2\nwhile w > 0:\n    w -= 1\n    {L}\n    {B}\n",
    "if-in-loop": "while True:\n    if analog_read(0) > 3:\n        {L}\n        {B}\n    {A}\n", "first-in-def": "def f():\n    {L}\n    {B}\n    return 1\nq = f()\n",
    "last-in-loop": "while True:\n    {A}\n    {B}\n    {L}\n",
}


def housekeeping_scripts():
    """(line, context, script): one do-nothing / import / directive line between two real statements, in every block context."""
    base = HDR + "led = Led(13)\n"
    return [(L, c, base + tpl.format(A="led.on()", L=L, B="led.off()")) for L in HOUSEKEEPING_LINES for c, tpl in HOUSEKEEPING_CTX.items()]


ZERO_ARG_CALLS = [("d = Led(3)\n", ["d.on()", "d.off()", "d.toggle()", "mon.write(d.get_state())", "mon.write(d.get_brightness())"]),
                  ("d = RGBLed(3, 5, 6)\n", ["d.on()", "d.off()", "mon.write(d.get_state())"]),
                  ("d = Servo(3)\n", ["mon.write(d.read())", "mon.write(d.read_us())"]),
                  ("d = DCMotor(3, 4, 5)\n", ["d.stop()", "d.coast()", "d.invert()", "mon.write(d.get_speed())", "mon.write(d.get_applied_speed())", "mon.write(d.is_inverted())", "mon.write(d.get_mode())"]),
                  ("d = Buzzer(3)\n", ["d.stop()", "d.beep()", "d.play_tone(440)", "mon.write(d.get_state())"]),
                  ("d = LCD(rs=12, en=11, d4=5, d5=4, d6=3, d7=2, backlight_pin=9)\n", ["d.clear()", "d.display(True)"]),
                  ("d = Ultrasonic(7, 8)\n", ["mon.write(d.measure_distance())"]), ("d = Potentiometer(\"A1\")\n", ["mon.write(d.read())"]),
                  ("d = Button(2)\n", ["mon.write(d.is_pressed())"])]
TWICE_WRAPPERS = ["{a}\nsleep(5)\n{a}\n", "while True:\n    {a}\n    sleep(5)\n    {a}\n", "if analog_read(0) > 3:\n    {a}\n    {a}\nelse:\n    {a}\n",
                  "def twice():\n    {a}\n    {a}\n    return 1\nq = twice()\n", "for k in range(2):\n    {a}\n    {a}\n"]


def twice_scripts():
    """Every device method called twice in ONE block (top level, main loop, branch, helper, for body): whatever temporaries
    the expansion of one call declares must not clash with those of the next."""
    from ..checks.C08 import specs

    out = []
    calls = []
    for sp in specs():
        if sp["call"].startswith("d = ") or not sp["prelude"] or "zz = " in sp["call"]:
            continue
        args = ", ".join(str(v) for v in sp["values"].values())   # positional, in signature order
        calls.append((sp["prelude"], sp["call"].format(args=args)))
    for prelude, cs in ZERO_ARG_CALLS:
        calls += [(prelude, c) for c in cs]
    for n, (prelude, call) in enumerate(calls):
        for w in (TWICE_WRAPPERS[n % len(TWICE_WRAPPERS)], TWICE_WRAPPERS[(n + 1) % len(TWICE_WRAPPERS)]):
            if "def twice" in w and ("animate" in call):
                continue   # known finding animate-in-function
            out.append(HDR + prelude + w.format(a=call))
    return out


BOUNDARY_PRELUDE = HDR + """led = Led(13)
rgb = RGBLed(9, 10, 11)
sv = Servo(6)
m = DCMotor(2, 4, 5)
bz = Buzzer(8)
lcd = LCD(rs=12, en=11, d4=5, d5=4, d6=3, d7=2, backlight_pin=9)
"""
BOUNDARY_LINES = [
    "lcd.glyph(0, [1, 2, 3, 4, 5, 6, 7])", "lcd.glyph(0, [1, 2, 3, 4, 5, 6, 7, 8, 9])", "lcd.glyph(0, [1, 2, 3, 4, 5, 6, 7, 8, 9, 10])", "lcd.glyph(0, [0] * 16)",
    "lcd.glyph(0, [])", "lcd.glyph(-1, [0, 0, 0, 0, 0, 0, 0, 0])", "lcd.glyph(8, [0, 0, 0, 0, 0, 0, 0, 0])", "lcd.glyph(7, [32, 255, 256, -1, 0, 0, 0, 0])",
    "l2 = LCD(i2c_addr=39, cols=0)", "l2 = LCD(i2c_addr=39, rows=0)", "l2 = LCD(i2c_addr=39, cols=80, rows=5)", "l2 = LCD(i2c_addr=39, cols=-16)", "l2 = LCD(i2c_addr=300)", "l2 = LCD(i2c_addr=-1)",
    "l2 = LCD(rs=1, en=1, d4=1, d5=1, d6=1, d7=1)", "l2 = LCD(rs=12, en=11, d4=5, d5=4, d6=3)", "l2 = LCD()",
    "lcd.write(-1, 0, \"x\")", "lcd.write(16, 0, \"x\")", "lcd.write(17, 0, \"x\")", "lcd.write(0, -1, \"x\")", "lcd.write(0, 2, \"x\")", "lcd.write(0, 0, \"\")", "lcd.write(0, 0, 5)",
    "lcd.line(2, \"x\")", "lcd.line(0, \"x\", align=\"CENTER\")", "lcd.line(0, \"x\", align=\"middle\")", "lcd.line(0, \"x\", align=\"\")", "lcd.message(\"a\", \"b\", top_align=\"Right\")",
    "lcd.progress(0, 5, max_value=0)", "lcd.progress(0, 5, width=0)", "lcd.progress(0, 5, width=-1)", "lcd.progress(0, 5, width=100)", "lcd.progress(0, 500)", "lcd.progress(0, -5)",
    "lcd.progress(0, 5, style=\"unknown\")", "lcd.progress(0, 5, style=\"\")", "lcd.progress(2, 5)", "lcd.progress(0, 5, label=\"a label much longer than the row\")",
    "lcd.animate(\"wave\", 0, \"x\")", "lcd.animate(\"SCROLL\", 0, \"x\")", "lcd.animate(\"scroll\", 2, \"x\")", "lcd.animate(\"scroll\", 0, \"x\", speed_ms=0)", "lcd.animate(\"scroll\", 0, \"x\", speed_ms=-5)",
    "lcd.animate(\"scroll\", 0, \"\")", "lcd.brightness(256)", "lcd.brightness(-1)", "lcd.display(2)", "lcd.backlight(\"on\")",
    "bz.melody(\"unknown\")", "bz.melody(\"\")", "bz.melody(\"SIREN\")", "bz.melody(\"siren\", tempo=0)", "bz.melody(\"siren\", tempo=-60)", "bz.sweep(100, 200, duration_ms=20, steps=0)",
    "bz.sweep(100, 200, duration_ms=20, steps=-3)", "bz.sweep(200, 200, duration_ms=0, steps=1)", "bz.beep(times=0)", "bz.beep(times=-1)", "bz.play_tone(0)", "bz.play_tone(-5, 10)", "bz.play_tone(70000)", "b2 = Buzzer(8, default_frequency=0)",
    "s2 = Servo(7, min_angle=90, max_angle=10)", "s2 = Servo(7, min_angle=10, max_angle=10)", "s2 = Servo(7, min_pulse_us=2000, max_pulse_us=1000)", "s2 = Servo(7, min_pulse_us=0, max_pulse_us=0)",
    "sv.write(181)", "sv.write(-1)", "sv.write(180.5)", "sv.write_us(543)", "sv.write_us(2401)", "sv.write_us(0)",
    "q = Led(-1)", "q = Led(\"13\")", "q = Led(\"A0\")", "q = Led(A0)", "q = Led(13.0)", "q = Led(1000)", "q = Led()", "q = Led(True)",
    "led.set_brightness(256)", "led.set_brightness(-1)", "led.set_brightness(1.5)", "led.blink(10, times=0)", "led.blink(10, times=-1)", "led.blink(-10)", "led.fade_in(step=0)", "led.fade_in(step=-5)",
    "led.fade_out(step=300)", "led.flash_pattern([])", "led.flash_pattern([256])", "led.flash_pattern([-1])", "led.flash_pattern([1, 0], delay_ms=-1)", "led.flash_pattern(5)",
    "rgb.set_color(256, 0, 0)", "rgb.set_color(-1, 0, 0)", "rgb.set_color(1.5, 0, 0)", "rgb.fade(1, 2, 3, steps=0)", "rgb.fade(1, 2, 3, steps=-1)", "rgb.fade(1, 2, 3, duration_ms=-1)", "rgb.blink(1, 2, 3, times=0)",
    "r2 = RGBLed(9, 9, 9)", "r2 = RGBLed(9, 10)", "m.set_speed(2)", "m.set_speed(-2)", "m.ramp(0.5, -1)", "m.run_for(-5, 0.5)", "m.backward(-0.5)", "m2 = DCMotor(2, 2, 2)", "m2 = DCMotor(2, 4)",
    "u = Ultrasonic(7, 7)", "u = Ultrasonic(7, 8, sensor=\"unknown\")", "u = Ultrasonic(7, 8, sensor=\"\")", "u = Ultrasonic(7)", "p = Potentiometer(3)", "p = Potentiometer(\"D3\")",
    "p = Potentiometer(\"a0\")", "p = Potentiometer(\"\")", "b = Button(2, on_click=nowhere)", "b = Button(-2)", "b = Button(\"2\")", "m9 = SerialMonitor(0)", "m9 = SerialMonitor(-9600)", "m9 = SerialMonitor(115200.5)",
    "sleep(-1)", "sleep(1.5)", "sleep(\"5\")", "sleep()", "pin_mode(1, 7)", "pin_mode(-1, OUTPUT)", "digital_write(1, 2)", "analog_write(1, 256)", "analog_write(1, -1)", "x = analog_read(8)", "x = analog_read(-1)", "x = digital_read(\"A0\")",
]


def boundary_scripts():
    """One call per script whose literal argument sits on or just outside a documented limit (row counts, slots, ranges, names,
    arities): each is either rejected, or accepted and then has to be a well-formed, compilable sketch like any other."""
    out = []
    for n, line in enumerate(BOUNDARY_LINES):
        out.append(BOUNDARY_PRELUDE + line + "\n")
        if n % 3 == 0:
            out.append(BOUNDARY_PRELUDE + "while True:\n    " + line + "\n    sleep(5)\n")
    return out


def helper_use_site_scripts():
    """Support-code use sites: an expression that needs a stitched-in runtime snippet (`len()` of a string / list, list literals, list
    methods) occurs ONLY inside a user function, and that function is reached in an unusual way - it is recursive (use in the base case or
    in the recursive arm), it is called only from another function, only from the main loop, with several argument types, or it both
    recurses and is called from a second helper. Whatever the sketch calls must be declared in the sketch (C06)."""
    uses = [
        ("s", '"ab"', 's + "x"', "len(s)"),
        ("xs", "[1, 2]", "xs", "len(xs)"),
        ("s", '"q"', 's + "y"', 'len(s + "z") + len("k")'),
        ("xs", "[4, 5, 6]", "xs", "xs[len(xs) - 1]"),
    ]
    out = []
    for p, arg, step, use in uses:
        out.append(HDR + f"def depth({p}, n):\n    if n > 3:\n        return {use}\n    return depth({step}, n + 1)\n\nd = depth({arg}, 0)\nmon.write(d)\n")
        out.append(HDR + f"def depth({p}, n):\n    if n > 3:\n        return 0\n    return {use} + depth({step}, n + 1)\n\nd = depth({arg}, 0)\nmon.write(d)\nwhile True:\n    d = d + 1\n    sleep(5)\n")
        out.append(HDR + f"def inner({p}):\n    return {use}\n\ndef outer({p}):\n    return inner({p}) + 1\n\nd = outer({arg})\nmon.write(d)\n")
        out.append(HDR + f"def size({p}):\n    return {use}\n\nv = {arg}\nwhile True:\n    d = size(v)\n    mon.write(d)\n    sleep(5)\n")
        out.append(HDR + f"def walk({p}, n):\n    if n <= 0:\n        return {use}\n    return walk({step}, n - 1)\n\ndef twice({p}):\n    return walk({p}, 1) + walk({p}, 2)\n\nd = twice({arg})\nmon.write(d)\n")
        out.append(HDR + f"def pick({p}, k):\n    if k > 1:\n        return k\n    return {use}\n\nd = pick({arg}, 1)\ne = pick({arg}, 2.5)\nmon.write(d)\nmon.write(e)\n")
    # list literals / list methods only inside a recursive or indirectly called function
    out.append(HDR + "def fill(n):\n    if n <= 0:\n        v = [n, n + 1]\n        return v[1]\n    return fill(n - 1)\n\nd = fill(2)\nmon.write(d)\n")
    out.append(HDR + "acc = [0]\ndef grow(n):\n    if n <= 0:\n        return len(acc)\n    acc.append(n)\n    return grow(n - 1)\n\nd = grow(3)\nmon.write(d)\n")
    out.append(HDR + "def mk(n):\n    v = [n, n * 2, n * 3]\n    return v[2]\n\ndef via(n):\n    return mk(n) + mk(n + 1)\n\nwhile True:\n    d = via(1)\n    mon.write(d)\n    sleep(5)\n")
    # placements that do not compile on the unchanged tree are findings of their own (KF-len-of-parameter-default-variant,
    # KF-helper-variants-ambiguous-overload: witnesses run by C06); the family keeps the placements that are sound today
    keep = (0, 1, 3, 4, 9, 12, 13, 14, 15, 16, 21, 24, 25, 26)
    return [out[k] for k in keep]
