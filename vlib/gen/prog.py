"""Seeded, typed generator of well-defined DSL programs (core language subset of C01).

`profile="clean"` stays inside constructs for which no known-finding mechanism can trigger;
`profile="hazard"` additionally uses the hazardous constructs (the reference run's hazard
monitors then say which mechanism was dynamically hit).

Typed generation keeps Python well-defined: every name is assigned before it is read on every
path, indices are in range by construction, divisors are non-zero literals, integers stay small.
"""
from __future__ import annotations

import random

HEADER = [
    "from Reduino import target",
    'target("COM3")',
    "from Reduino.Actuators import Led",
    "from Reduino.Communication import SerialMonitor",
    "from Reduino.Utils import sleep",
    "",
    "mon = SerialMonitor(9600)",
]

HAZARD_KINDS = ["floordiv", "mod", "truediv", "pow", "andor", "bool-text", "continue", "retype", "minmax-abs-float",
                "stale-len", "first-assign-in-loop-branch", "for-var-assign", "for-bound", "list-local",
                "list-append-literal", "stmt-call-types", "uncalled-helper", "param-retype"]

NAME_STEMS = ["from_", "import_", "ifx_", "for_", "while_", "def_", "pass_", "print_", "try_", "else_", "elif_", "return_", "global_", "break_",
              "continue_", "not_", "and_", "or_", "in_", "is_", "led_", "sleep_", "target_", "mon_", "len_", "range_", "true_", "none_", "class_",
              "with_", "as_", "del_", "lambda_", "int_", "float_", "str_", "bool_", "list_", "loop_", "setup_", "delay_", "serial_", "string_",
              "importance", "fromage", "iffy", "format", "define", "passed", "tryout", "whiles", "forty", "printer", "targets", "sleeper", "_", "__x"]

# (apostrophes inside double-quoted literals and '#' inside literals: neither ends the string nor starts a comment)
STR_ATOMS = ["a", "b", "ok", "x1", "go", "Z", "hi there", "n=", "-", "v:", "it's", "5 o'clock", "#1", "a # b", "don't"]


class Var:
    __slots__ = ("name", "type", "frozen", "length", "scope", "ro")

    def __init__(self, name, type_, frozen=False, length=None, scope="global", ro=False):
        self.ro = ro  # loop variable: the clean profile never assigns to it
        self.name = name
        self.type = type_
        self.frozen = frozen
        self.length = length
        self.scope = scope


class Func:
    __slots__ = ("name", "params", "ret", "mutates", "pure")

    def __init__(self, name, params, ret, mutates=None, pure=False):
        self.name = name
        self.params = params  # list of types
        self.ret = ret  # type or None
        self.mutates = mutates
        self.pure = pure  # no observable effect: may be called inside larger expressions


class ProgGen:
    def __init__(self, rng: random.Random, profile: str = "clean", *, size: int = 14, main_loop: bool | None = None,
                 lists: bool = True, funcs: bool = True, led: bool = True, hazards=()):
        self.r = rng
        self.profile = profile
        self.hazards = set(hazards)
        if profile == "hazard" and not self.hazards:
            self.hazards = {rng.choice(HAZARD_KINDS)}
        self.size = size
        self.lines: list[str] = []
        self.ind = 0
        self.counter = 0
        self.features: set[str] = set()
        self.funcs: list[Func] = []
        self.scopes: list[dict[str, Var]] = [{}]
        self.use_lists = lists
        self.use_funcs = funcs
        self.use_led = led
        self.main_loop = self.r.random() < 0.8 if main_loop is None else main_loop
        self.in_function = False
        self.in_main_loop = False
        self.loop_depth = 0
        self.obs = 0
        self.leds: list[tuple[str, int]] = []
        self.max_depth = 3
        self.pure = False

    # ---- helpers -------------------------------------------------------------------------
    def feat(self, f):
        self.features.add(f)

    def emit(self, text=""):
        if text and self.lines and self.r.random() < 0.03:
            # comment-only lines at any column (0, the block's indent, deeper) and trailing comments never change the program
            col = self.r.choice([0, 0, 4 * self.ind, 4 * self.ind + 4, max(0, 4 * self.ind - 4), 1])
            self.lines.append(" " * col + self.r.choice(["# note", "#", "# TODO: tune", "#led.on()", "# while True:", "# open (bracket", "# [", "# it's", "# \"", "# x = {", "# fixes #7", "# a # b"]))
            self.feat("comment-line")
        if text and self.r.random() < (0.03 if '"' not in text else 0.06):
            text = text + self.r.choice(["  # trailing", " # x = 1", "  #", "  # (unclosed", " # a[0", "  # it's", "  # see #12", " # a # b", "  ## twice"])
            self.feat("trailing-comment")
        self.lines.append(("    " * self.ind + text) if text else "")

    def fresh(self, prefix="v"):
        self.counter += 1
        if self.r.random() < 0.3:
            # identifiers that merely START like a keyword, a builtin or a DSL name (never equal to one: the counter follows)
            self.feat("keywordish-identifier")
            return f"{self.r.choice(NAME_STEMS)}{prefix}{self.counter}"
        if prefix != "fn" and self.r.random() < 0.08:
            # ALL-CAPITALS names are ordinary variables too (no "constant" treatment)
            self.feat("uppercase-identifier")
            return f"{self.r.choice(['PHASE', 'MODE', 'LIMIT', 'N'])}{prefix.upper()}{self.counter}"
        return f"{prefix}{self.counter}"

    def visible(self, type_=None, pred=None):
        out = []
        seen = set()
        for sc in reversed(self.scopes):
            for v in sc.values():
                if v.name in seen:
                    continue
                seen.add(v.name)
                if type_ is not None and v.type != type_:
                    continue
                if pred is not None and not pred(v):
                    continue
                out.append(v)
        return out

    def declare(self, name, type_, **kw):
        kw.setdefault("scope", "function" if self.in_function else "global")
        v = Var(name, type_, **kw)
        self.scopes[-1][name] = v
        return v

    def mutable(self, types):
        out = [v for v in self.visible() if v.type in types and (not v.ro)]
        if self.h("for-var-assign") and self.chance(0.4):
            ro = [v for v in self.visible() if v.type in types and v.ro]
            if ro:
                self.feat("hz:for-var-assign")
                return ro
        return out

    def chance(self, p):
        return self.r.random() < p

    def h(self, kind):
        return kind in self.hazards

    # ---- expressions ---------------------------------------------------------------------
    def int_lit(self, lo=0, hi=12):
        return str(self.r.randint(lo, hi))

    def float_lit(self):
        return self.r.choice(["0.5", "1.5", "2.25", "0.25", "3.0", "10.5", "0.125", "4.75"])

    def str_lit(self):
        return '"' + self.r.choice(STR_ATOMS) + '"'

    def expr(self, type_, depth=0):
        return getattr(self, "e_" + type_)(depth)

    def e_int(self, d):
        r = self.r
        vars_ = self.visible("int")
        choices = ["lit"]
        if vars_:
            choices += ["var"] * 3
        if d < self.max_depth:
            choices += ["add", "sub", "mul", "fdiv", "mod", "abs", "minmax", "ifexp", "intcast", "neg"]
            if any(f.ret == "int" and f.pure for f in self.funcs) and not self.in_function:
                choices += ["call"] * 2
            if self.visible(pred=lambda v: v.type == "list[int]" and v.length):
                choices += ["index"] * 2
            if self.visible(pred=lambda v: v.type.startswith("list[") and (v.frozen or self.h("stale-len"))):
                choices += ["len"]
            choices += ["lenlit", "bitop", "boolsum"]
            if self.h("pow"):
                choices += ["pow"] * 2
            if self.h("andor"):
                choices += ["andor"] * 2
            if self.h("truediv"):
                choices += ["truediv_int"] * 2
        c = r.choice(choices)
        if c == "lit":
            return self.int_lit()
        if c == "var":
            return r.choice(vars_).name
        if c == "boolsum":
            # arithmetic on truth values is integer arithmetic (True + True == 2)
            self.feat("bool+bool")
            bs = self.visible("bool")
            a = r.choice(bs).name if bs and self.chance(0.5) else self.e_bool(d + 2)
            b = r.choice(bs).name if bs and self.chance(0.5) else self.e_bool(d + 2)
            return f"(({a}) + ({b}))" if self.chance(0.7) else f"((({a}) + ({b})) * {r.randint(2, 9)})"
        if c == "add":
            self.feat("int+")
            return f"({self.e_int(d + 1)} + {self.e_int(d + 1)})"
        if c == "sub":
            self.feat("int-")
            return f"({self.e_int(d + 1)} - {self.e_int(d + 1)})"
        if c == "mul":
            self.feat("int*")
            return f"({self.e_int(d + 2)} * {self.int_lit(0, 3)})"
        if c == "fdiv":
            self.feat("int//")
            if self.h("floordiv") and self.chance(0.7):
                return f"({self.e_int(d + 1)} // {r.choice(['2', '3', '-2', '4'])})"
            return f"(abs({self.e_int(d + 1)}) // {r.randint(1, 4)})"
        if c == "mod":
            self.feat("int%")
            if self.h("mod") and self.chance(0.7):
                return f"({self.e_int(d + 1)} % {r.choice(['2', '3', '-3', '5'])})"
            return f"(abs({self.e_int(d + 1)}) % {r.randint(1, 5)})"
        if c == "abs":
            self.feat("abs")
            return f"abs({self.e_int(d + 1)})"
        if c == "minmax":
            self.feat("minmax")
            fn = r.choice(["min", "max"])
            n = r.choice([2, 2, 3])
            return f"{fn}(" + ", ".join(self.e_int(d + 2) for _ in range(n)) + ")"
        if c == "ifexp":
            self.feat("ifexp")
            return f"({self.e_int(d + 1)} if {self.e_bool(d + 1)} else {self.e_int(d + 1)})"
        if c == "intcast":
            self.feat("int()")
            if self.chance(0.3):
                # the conversion applied directly to abs/min/max of fractions (those helpers hand fractions through unchanged)
                self.feat("int(abs|min|max of floats)")
                form = r.choice(["abs({a})", "max({a}, {b})", "min({a}, {b})"])
                return "int(" + form.format(a=self.e_float(d + 2), b=self.float_lit()) + ")"
            if self.chance(0.5) or not self.visible("float"):
                return f"int({self.e_float(d + 1)})"
            return f"int({r.choice(self.visible('float')).name})"
        if c == "neg":
            self.feat("unary-")
            if vars_ and self.chance(0.35):
                # signs stacked directly on a name: two minus signs are not a decrement
                self.feat("double-unary-sign")
                v = r.choice(vars_).name
                return r.choice([f"(-(-{v}))", f"(- -{v})", f"(+(+{v}))", f"(-(+{v}))", f"(1 - -{v})", f"(-(-(-{v})))"])
            return f"(-{self.e_int(d + 1)})"
        if c == "call":
            return self.call_expr("int", d)
        if c == "index":
            self.feat("list-index")
            v = r.choice(self.visible(pred=lambda v: v.type == "list[int]" and v.length))
            idx = r.randint(-v.length, v.length - 1)
            if idx < 0:
                self.feat("list-neg-index")
            return f"{v.name}[{idx}]"
        if c == "len":
            self.feat("len(list)")
            v = r.choice(self.visible(pred=lambda v: v.type.startswith("list[") and (v.frozen or self.h("stale-len"))))
            return f"len({v.name})"
        if c == "lenlit":
            self.feat("len(lit)")
            if self.chance(0.4):
                # characters that need escaping in the C++ literal count once
                self.feat("len(lit-with-escapes)")
                return "len(" + r.choice(['\'say "hi"\'', '"C:\\\\temp"', '\'a"b\'', '"tab\\\\t"', '\'""\'', '"q\\"q"']) + ")"
            return f"len({self.str_lit()})"
        if c == "pow":
            self.feat("hz:pow")
            return f"({self.e_int(d + 2)} ** 2)"
        if c == "andor":
            self.feat("hz:andor")
            return f"({self.e_int(d + 1)} {r.choice(['and', 'or'])} {self.e_int(d + 1)})"
        if c == "bitop":
            self.feat("bitop")
            return f"(abs({self.e_int(d + 1)}) {r.choice(['&', '|', '^'])} {self.int_lit(0, 7)})"
        if c == "truediv_int":
            self.feat("hz:truediv")
            return f"int({self.e_int(d + 1)} / {r.randint(1, 4)})"
        return self.int_lit()

    def e_float(self, d):
        r = self.r
        vars_ = self.visible("float")
        choices = ["lit"]
        if vars_:
            choices += ["var"] * 3
        if d < self.max_depth:
            choices += ["add", "mul", "sub", "div", "mix", "floatcast", "ifexp"]
            if any(f.ret == "float" and f.pure for f in self.funcs) and not self.in_function:
                choices += ["call"] * 2
            if self.visible(pred=lambda v: v.type == "list[float]" and v.length):
                choices += ["index"]
            if self.h("minmax-abs-float"):
                choices += ["absf", "minmaxf"]
            if self.h("truediv"):
                choices += ["truediv"] * 2
        c = r.choice(choices)
        if c == "lit":
            return self.float_lit()
        if c == "var":
            return r.choice(vars_).name
        if c == "add":
            self.feat("float+")
            return f"({self.e_float(d + 1)} + {self.e_float(d + 1)})"
        if c == "sub":
            self.feat("float-")
            return f"({self.e_float(d + 1)} - {self.e_float(d + 1)})"
        if c == "mul":
            self.feat("float*")
            return f"({self.e_float(d + 2)} * {r.choice(['0.5', '2.0', '1.5'])})"
        if c == "div":
            self.feat("float/")
            return f"({self.e_float(d + 1)} / {r.choice(['2.0', '4.0', '0.5'])})"
        if c == "mix":
            self.feat("int*float")
            return f"({self.e_int(d + 1)} * {self.float_lit()})"
        if c == "floatcast":
            self.feat("float()")
            return f"float({self.e_int(d + 1)})"
        if c == "ifexp":
            self.feat("ifexp")
            return f"({self.e_float(d + 1)} if {self.e_bool(d + 1)} else {self.e_float(d + 1)})"
        if c == "call":
            return self.call_expr("float", d)
        if c == "index":
            self.feat("list-index")
            v = r.choice(self.visible(pred=lambda v: v.type == "list[float]" and v.length))
            return f"{v.name}[{r.randint(-v.length, v.length - 1)}]"
        if c == "absf":
            self.feat("hz:abs-float")
            return f"abs({self.e_float(d + 1)} - 3.5)"
        if c == "minmaxf":
            self.feat("hz:minmax-float")
            return f"{r.choice(['min', 'max'])}({self.e_float(d + 1)}, {self.e_float(d + 1)})"
        if c == "truediv":
            self.feat("hz:truediv")
            return f"({self.e_int(d + 1)} / {r.randint(2, 4)})"
        return self.float_lit()

    def e_bool(self, d):
        r = self.r
        vars_ = self.visible("bool")
        choices = ["cmp_int"] * 3 + ["lit"]
        if vars_:
            choices += ["var"] * 2
        if d < self.max_depth:
            choices += ["not", "and", "or", "cmp_float", "chain"]
            if self.visible("str"):
                choices += ["cmp_str"]
        c = r.choice(choices)
        if c == "lit":
            return r.choice(["True", "False"])
        if c == "var":
            return r.choice(vars_).name
        if c == "cmp_int":
            self.feat("cmp")
            return f"({self.e_int(d + 1)} {r.choice(['<', '<=', '>', '>=', '==', '!='])} {self.e_int(d + 1)})"
        if c == "cmp_float":
            self.feat("cmp-float")
            return f"({self.e_float(d + 1)} {r.choice(['<', '>', '<=', '>='])} {self.e_float(d + 1)})"
        if c == "cmp_str":
            self.feat("cmp-str")
            return f"({r.choice(self.visible('str')).name} {r.choice(['==', '!='])} {self.str_lit()})"
        if c == "chain":
            self.feat("cmp-chain")
            return f"({self.e_int(d + 2)} {r.choice(['<', '<='])} {self.e_int(d + 2)} {r.choice(['<', '<='])} {self.e_int(d + 2)})"
        if c == "not":
            self.feat("not")
            return f"(not {self.e_bool(d + 1)})"
        if c in ("and", "or"):
            self.feat("boolop")
            return f"({self.e_bool(d + 1)} {c} {self.e_bool(d + 1)})"
        return "True"

    def e_str(self, d):
        r = self.r
        vars_ = self.visible("str")
        choices = ["lit"]
        if vars_:
            choices += ["var"] * 2
            if d < self.max_depth:
                choices += ["cat_lit", "cat_var"]
        if d < self.max_depth:
            choices += ["str_int", "fstr", "ifexp"]
            if any(f.ret == "str" and f.pure for f in self.funcs) and not self.in_function:
                choices += ["call"]
        c = r.choice(choices)
        if c == "lit":
            return self.str_lit()
        if c == "var":
            return r.choice(vars_).name
        if c == "cat_lit":
            self.feat("str+lit")
            v = r.choice(vars_).name
            return f"({v} + {self.str_lit()})" if self.chance(0.7) else f"({self.str_lit()} + {v})"
        if c == "cat_var":
            self.feat("str+str")
            return f"({r.choice(vars_).name} + {r.choice(vars_).name})"
        if c == "str_int":
            self.feat("str()")
            return f"str({self.e_int(d + 1)})"
        if c == "fstr":
            return self.fstring(d)
        if c == "ifexp":
            self.feat("ifexp-str")
            vs = [v.name for v in vars_]
            a = r.choice(vs) if vs and self.chance(0.5) else self.str_lit()
            b = r.choice(vs) if vs and self.chance(0.5) else self.str_lit()
            return f"({a} if {self.e_bool(d + 1)} else {b})"
        if c == "call":
            return self.call_expr("str", d)
        return self.str_lit()

    def fstring(self, d, floats=False):
        """f-string expression. Float fields (rendered with 2 decimals on the device) are generated only when the
        result is printed directly (`floats=True`) and are always followed by non-digit literal text, so that the
        printed line stays tokenisable for the numeric-tolerance comparison."""
        self.feat("fstring")
        r = self.r
        parts = []
        n = r.randint(1, 3)
        for fi in range(n):
            if fi > 0 or self.chance(0.6):
                parts.append(r.choice(["n=", "v ", "x:", " / ", "t", "[", "]"]))
            kinds = ["int", "int", "str"] + (["float", "float"] if floats else []) + (["bool"] * 2 if self.h("bool-text") else [])
            kind = r.choice(kinds)
            if kind == "str" and not self.visible("str"):
                kind = "int"
            if self.chance(0.12):
                # a field that is a choice between two string literals (or a bare literal), possibly the very first component
                self.feat("fstring-literal-choice-field")
                ints = self.visible("int")
                cond = f"{r.choice(ints).name} > {r.randint(0, 5)}" if ints else r.choice(["1 < 2", "3 < 2"])
                parts.append(r.choice(["{'ON' if " + cond + " else 'OFF'}", "{'hi'}", "{'a' if " + cond + " else 'bb'}"]))
            elif kind == "str":
                parts.append("{" + r.choice(self.visible("str")).name + "}")
            elif kind == "bool":
                self.feat("hz:bool-text")
                parts.append("{" + self.e_bool(d + 2) + "}")
            else:
                e = self.expr(kind, d + 2)
                if '"' in e:
                    e = self.int_lit()
                parts.append("{" + e + "}")
                if kind == "float":
                    self.feat("fstring-float")
                    if fi == n - 1:
                        parts.append(r.choice([";", " ms", "|"]))
        return 'f"' + "".join(parts) + '"'

    def call_expr(self, ret, d):
        self.feat("call-expr")
        f = self.r.choice([f for f in self.funcs if f.ret == ret and f.pure])
        args = ", ".join(self.expr(t, d + 2) for t in f.params)
        return f"{f.name}({args})"

    # ---- observation ---------------------------------------------------------------------
    def observe(self, v: Var | None = None):
        if self.pure:
            return
        cands = [x for x in self.visible() if x.type in ("int", "float", "str", "bool")]
        if v is None:
            if not cands:
                return
            v = self.r.choice(cands)
        self.obs += 1
        if v.type == "bool":
            if self.h("bool-text") and self.chance(0.6):
                self.feat("hz:bool-text")
                self.emit(f"mon.write({v.name})")
            else:
                self.emit(f"mon.write(int({v.name}))")
        elif v.type.startswith("list["):
            if v.length:
                self.emit(f"mon.write({v.name}[{self.r.randint(-v.length, v.length - 1)}])")
        else:
            self.emit(f"mon.write({v.name})")

    def observe_len(self, v):
        """The length of a str variable (and of strings derived from it) right after it was set from literals in the same
        block, as the transpiler may fold it. (Only then: a length folded after an assignment made in a nested block is
        the known stale-constant finding.)"""
        if self.pure or v.type != "str" or v.ro or not self.chance(0.3):
            return
        self.feat("len(str-var)")
        self.emit(f"{v.name} = {self.str_lit()}")
        if self.chance(0.7):
            self.emit(f"{v.name} += {self.str_lit()}")
            self.feat("len(str-var)-after-augassign")
        form = self.r.choice(["len({n})", "len({n} + \"!\")", "len(f\"n={{{n}}}\")", "len({n}) * 2 + 1"])
        self.emit("mon.write(" + form.replace("{n}", v.name) + ")")
        self.obs += 1

    # ---- statements ----------------------------------------------------------------------
    def stmt(self, depth):
        r = self.r
        if self.pure:
            choices = ["assign_new"] * 3 + ["reassign"] * 3 + ["aug"] * 3
            if depth < 3:
                choices += ["if"] * 2 + ["for", "while"]
            return getattr(self, "s_" + r.choice(choices))(depth)
        choices = ["assign_new"] * 3 + ["reassign"] * 3 + ["aug"] * 3 + ["write_expr"] * 2 + ["observe"] * 2
        if depth < 3:
            choices += ["if"] * 3 + ["for"] * 2 + ["while"] * 2 + ["if_define"] * 2 + ["nested_if"]
        choices += ["tuple_new", "tuple_update"]
        if depth < 3 and not (self.in_main_loop and depth > 1):
            choices += ["reset_same_const"]
        if depth < 2:
            choices += ["single_pass_for", "twin_ifs"]
        if getattr(self, "busy_helper", None) and not self.in_function and depth < 3:
            choices += ["busy_wait"] * 2
        if [f for f in self.funcs if f.ret == "int" and not f.pure] and not self.in_function:
            choices += ["empty_arms_call"]
        if self.use_led and self.leds and getattr(self, "led_helpers", None) and not self.in_function:
            choices += ["led_around_call"] * 2
        if depth < 3 and not self.in_main_loop:
            choices += ["loop_reset"]
        if self.use_lists and not self.in_main_loop and not self.in_function and depth < 2:
            choices += ["len_loop"]
        if self.in_main_loop and depth == 1:
            choices += ["loop_local"] * 2
        if len(self.visible()) >= 2:
            choices += ["swap"]
        if self.use_lists:
            choices += ["list_new", "list_op", "list_op"]
        if self.funcs and not self.in_function:
            choices += ["call_stmt"] * 2
        if self.use_led and self.leds:
            choices += ["led"] * 2
        choices += ["sleep"]
        if self.loop_depth > 0 and depth >= 1:
            choices += ["break_if"]
            if self.h("continue"):
                choices += ["continue_if"] * 3
        if self.h("retype"):
            choices += ["retype", "aug_widen"]
        getattr(self, "s_" + r.choice(choices))(depth)

    def block(self, depth, n=None):
        n = n if n is not None else self.r.randint(1, 3)
        self.ind += 1
        self.scopes.append({})
        start = len(self.lines)
        for _ in range(n):
            self.stmt(depth + 1)
        if len(self.lines) == start:
            self.emit("pass")
        self.scopes.pop()
        self.ind -= 1

    def new_value(self, type_):
        return self.expr(type_, 0)

    def pick_type(self):
        return self.r.choice(["int", "int", "int", "float", "float", "str", "bool"])

    def can_declare_here(self):
        # a name first assigned inside a branch of the main loop is re-initialised on every pass by the
        # transpiler (known finding); the clean profile declares names in the main loop only at its top level
        return True

    def s_assign_new(self, depth):
        t = self.pick_type()
        if self.in_main_loop and depth > 1 and not self.h("first-assign-in-loop-branch"):
            return self.s_reassign(depth)
        if self.in_main_loop and depth > 1:
            self.feat("hz:first-assign-in-loop-branch")
        name = self.fresh({"int": "i", "float": "f", "str": "s", "bool": "b"}[t])
        self.emit(f"{name} = {self.new_value(t)}")
        v = self.declare(name, t)
        self.feat("assign-" + t)
        if depth > 0:
            self.feat("first-assign-nested")
        self.observe_len(v)
        if self.chance(0.5):
            self.observe(v)

    def s_reassign(self, depth):
        cands = self.mutable(("int", "float", "str", "bool"))
        if not cands:
            return self.s_assign_new(depth) if self.pure else self.s_write_expr(depth)
        v = self.r.choice(cands)
        self.emit(f"{v.name} = {self.new_value(v.type)}")
        self.feat("reassign")
        self.observe_len(v)
        if self.chance(0.5):
            self.observe(v)

    def s_aug(self, depth):
        cands = self.mutable(("int", "float", "str"))
        if not cands:
            return self.s_assign_new(depth) if self.pure else self.s_write_expr(depth)
        v = self.r.choice(cands)
        looping = self.loop_depth > 0 or self.in_main_loop or self.in_function
        if v.type == "int":
            # repeated multiplication inside loops / across passes leaves the +-10^4 range (16-bit int on the AVR)
            op = self.r.choice(["+=", "-=", "+="] + ([] if looping else ["*="]))
            rhs = self.int_lit(0, 3) if op == "*=" else self.e_int(2)
        elif v.type == "float":
            op = self.r.choice(["+=", "-="] + ([] if looping else ["*="]))
            rhs = self.r.choice(["0.5", "2.0", "1.5"]) if op == "*=" else (self.e_float(2) if self.chance(0.6) else self.int_lit())
        else:
            op = "+="
            # inside loops only literals are appended (s += s doubles the string on every iteration)
            rhs = self.str_lit() if (looping or self.chance(0.7)) else self.e_str(2)
        self.emit(f"{v.name} {op} {rhs}")
        self.feat("augassign-" + v.type)
        self.observe_len(v)
        if self.chance(0.5):
            self.observe(v)

    def s_swap(self, depth):
        for t in self.r.sample(["int", "float", "str"], 3):
            vs = [v for v in self.visible(t) if not v.ro]
            if len(vs) >= 2:
                a, b = self.r.sample(vs, 2)
                self.emit(f"{a.name}, {b.name} = {b.name}, {a.name}")
                self.feat("swap")
                self.observe(a)
                self.observe(b)
                return
        self.s_observe(depth)

    def s_write_expr(self, depth):
        t = self.r.choice(["int", "int", "float", "str", "fstr"])
        self.obs += 1
        if t == "fstr":
            self.emit(f"mon.write({self.fstring(1, floats=True)})")
            self.feat("write-expr")
            return
        self.emit(f"mon.write({self.expr(t, 1)})")
        self.feat("write-expr")

    def s_observe(self, depth):
        self.observe()

    def s_sleep(self, depth):
        self.feat("sleep")
        if self.chance(0.7) or not self.visible("int"):
            self.emit(f"sleep({self.r.choice([1, 5, 10, 20])})")
        else:
            self.emit(f"sleep(abs({self.r.choice(self.visible('int')).name}) % 7)")

    def s_led(self, depth):
        name, _pin = self.r.choice(self.leds)
        self.feat("led")
        op = self.r.choice(["on", "off", "toggle", "set"])
        if op == "set":
            self.emit(f"{name}.set_brightness(abs({self.e_int(2)}) % 256)")
        else:
            self.emit(f"{name}.{op}()")

    def pass_block(self):
        self.ind += 1
        self.emit(self.r.choice(["pass", "pass", "print(\"host only\")"]))
        self.ind -= 1
        self.feat("empty-arm")

    def s_if(self, depth):
        self.feat("if")
        self.emit(f"if {self.e_bool(1)}:")
        if self.chance(0.1):
            self.pass_block()
        else:
            self.block(depth)
        for _ in range(self.r.choice([0, 0, 1, 2])):
            self.feat("elif")
            self.emit(f"elif {self.e_bool(1)}:")
            if self.chance(0.25):
                self.pass_block()
            else:
                self.block(depth)
        if self.chance(0.5):
            self.feat("else")
            self.emit("else:")
            if depth < 2 and self.chance(0.35) and not self.pure:
                # the else block STARTS with a nested if and goes on after it: not an `elif`
                self.feat("else-starting-with-if")
                self.ind += 1
                self.scopes.append({})
                self.emit(f"if {self.e_bool(1)}:")
                self.ind += 1
                self.emit(f"mon.write({self.str_lit()})")
                self.ind -= 1
                if self.chance(0.4):
                    self.emit("else:")
                    self.ind += 1
                    self.emit(f"mon.write({self.str_lit()})")
                    self.ind -= 1
                self.emit(f"mon.write({self.str_lit()})")
                self.obs += 1
                self.stmt(depth + 1)
                self.scopes.pop()
                self.ind -= 1
            else:
                self.block(depth)
        self.observe()

    def s_if_define(self, depth):
        """A name first assigned inside a conditional / loop and read after it (exercises declaration hoisting).
        Python stays well-defined: the name is assigned on every path that can execute."""
        if self.pure or (self.in_main_loop and not self.h("first-assign-in-loop-branch")):
            return self.s_reassign(depth)
        r = self.r
        t = self.pick_type()
        name = self.fresh({"int": "i", "float": "f", "str": "s", "bool": "b"}[t])
        ints = self.visible("int")
        probe = r.choice(ints).name if ints else "0"
        form = r.choice(["if-else", "if-elif-else", "else-only", "if-only", "for-body", "while-body"])
        self.feat("define-in-" + form)
        if form == "if-else":
            self.emit(f"if {self.e_bool(1)}:")
            self.ind += 1; self.emit(f"{name} = {self.new_value(t)}"); self.ind -= 1
            self.emit("else:")
            self.ind += 1; self.emit(f"{name} = {self.new_value(t)}"); self.ind -= 1
        elif form == "if-elif-else":
            self.emit(f"if {self.e_bool(1)}:")
            self.ind += 1; self.emit(f"{name} = {self.new_value(t)}"); self.ind -= 1
            self.emit(f"elif {self.e_bool(1)}:")
            self.ind += 1; self.emit(f"{name} = {self.new_value(t)}"); self.ind -= 1
            self.emit("else:")
            self.ind += 1; self.emit(f"{name} = {self.new_value(t)}"); self.ind -= 1
        elif form == "else-only":
            # the condition is false at run time but not decidable by the transpiler
            self.emit(f"if (abs({probe}) < 0):")
            self.ind += 1; self.emit("sleep(1)"); self.ind -= 1
            self.emit("else:")
            self.ind += 1; self.emit(f"{name} = {self.new_value(t)}"); self.ind -= 1
        elif form == "if-only":
            self.emit(f"if (abs({probe}) >= 0):")
            self.ind += 1; self.emit(f"{name} = {self.new_value(t)}"); self.ind -= 1
        elif form == "for-body":
            iv = self.fresh("k")
            self.emit(f"for {iv} in range({r.randint(1, 3)}):")
            self.ind += 1; self.emit(f"{name} = {self.new_value(t)}"); self.ind -= 1
        else:
            w = self.fresh("w")
            self.emit(f"{w} = {r.randint(1, 3)}")
            self.declare(w, "int", ro=True)
            self.emit(f"while {w} > 0:")
            self.ind += 1; self.emit(f"{w} -= 1"); self.emit(f"{name} = {self.new_value(t)}"); self.ind -= 1
        v = self.declare(name, t)
        self.observe(v)
        if self.chance(0.5):
            # use it in a later declaration too (the hoisted name's type feeds later inference)
            n2 = self.fresh({"int": "i", "float": "f", "str": "s", "bool": "b"}[t])
            self.emit(f"{n2} = {name}")
            self.observe(self.declare(n2, t))

    def s_tuple_new(self, depth):
        """Tuple assignment introducing new names, right-hand sides may use earlier names."""
        if self.pure or (self.in_main_loop and depth > 1 and not self.h("first-assign-in-loop-branch")):
            return self.s_reassign(depth)
        ts = [self.r.choice(["int", "int", "float", "str"]) for _ in range(self.r.choice([2, 2, 3]))]
        names = [self.fresh({"int": "i", "float": "f", "str": "s"}[t]) for t in ts]
        self.emit(f"{', '.join(names)} = {', '.join(self.new_value(t) for t in ts)}")
        self.feat("tuple-new")
        for n, t in zip(names, ts):
            self.observe(self.declare(n, t))

    def s_tuple_update(self, depth):
        """Parallel assignment whose right-hand sides read the targets (all evaluated before any store)."""
        vs = [v for v in self.visible("int") if not v.ro]
        if len(vs) < 2:
            return self.s_reassign(depth)
        a, b = self.r.sample(vs, 2)
        impure = [f for f in self.funcs if f.ret == "int" and not f.pure]
        if impure and not self.in_function and self.chance(0.4):
            # right-hand sides that CALL helpers with effects: every value is computed (left to right) before any target is stored
            f = self.r.choice(impure)
            g = next((v for v in vs if f.mutates == v.name), None)
            if g is not None and self.chance(0.6):
                other = next(v for v in vs if v is not g)
                args = ", ".join(self.expr(t, 2) for t in f.params)
                self.emit(f"{g.name}, {other.name} = {g.name} + 1, {f.name}({args})")   # the helper's own update of g is overwritten
                self.feat("tuple-update-call-mutating-target")
            else:
                f2 = self.r.choice(impure)
                args1 = ", ".join(self.expr(t, 2) for t in f.params)
                args2 = ", ".join((a.name if t == "int" else self.expr(t, 2)) for t in f2.params)
                self.emit(f"{a.name}, {b.name} = {f.name}({args1}), {f2.name}({args2})")            # f runs before f2, f2 sees the old a
                self.feat("tuple-update-two-calls")
            self.observe(a)
            self.observe(b)
            return
        form = self.r.choice(["{b}, abs({a} + {b}) % 97", "abs({a} + 1) % 50, {a}", "{b} - 1, abs({a} * 2) % 89", "{b}, abs({a} - {b}) % 61"])
        self.emit(f"{a.name}, {b.name} = " + form.format(a=a.name, b=b.name))
        self.feat("tuple-update")
        self.observe(a)
        self.observe(b)

    def s_nested_if(self, depth):
        """if A: (if B: X) else: Y  -- the else belongs to the outer if only."""
        if depth >= 3:
            return self.s_if(depth)
        self.feat("nested-if-else")
        self.emit(f"if {self.e_bool(1)}:")
        self.ind += 1
        self.emit(f"if {self.e_bool(1)}:")
        self.block(depth + 1, n=self.r.randint(1, 2))
        self.ind -= 1
        self.emit("else:")
        self.block(depth, n=self.r.randint(1, 2))
        self.observe()

    def s_loop_reset(self, depth):
        """A name whose FIRST assignment in the script sits inside a (non-main) loop body and stores the type's default
        value - the per-iteration reset idiom; it is changed later in the same iteration and observed."""
        self.feat("loop-reset-default")
        t = self.r.choice(["int", "int", "float", "bool", "str"])
        name = self.fresh({"int": "i", "float": "f", "str": "s", "bool": "b"}[t])
        iv = self.fresh("k")
        n = self.r.randint(2, 3)
        for_form = self.chance(0.6)
        if for_form:
            self.emit(f"for {iv} in range({n}):")
        else:
            self.emit(f"{iv} = 0")
            self.emit(f"while {iv} < {n}:")
            self.ind += 1
            self.emit(f"{iv} += 1")
            self.ind -= 1
        self.ind += 1
        default = {"int": "0", "float": "0.0", "bool": "False", "str": '""'}[t]
        self.emit(f"{name} = {default}")
        if t == "int":
            self.emit(f"{name} = {name} + {iv} + {self.r.randint(1, 5)}")
        elif t == "float":
            self.emit(f"{name} = {name} + {self.float_lit()}")
        elif t == "bool":
            self.emit(f"if {iv} >= 0:")
            self.emit(f"    {name} = True")
        else:
            self.emit(f"{name} = {name} + {self.str_lit()}")
        self.emit(f"mon.write({'int(' + name + ')' if t == 'bool' else name})")
        self.obs += 1
        self.ind -= 1
        if not for_form:
            # (a `for` variable read after its loop is not declared in the generated C++: known finding, not generated here)
            self.declare(iv, "int", ro=True)
        self.declare(name, t)

    def s_reset_same_const(self, depth):
        """A name initialised from a literal, changed inside a nested block whose execution is only known at run time, then
        set back to the very same literal (the reset idiom): every one of the three stores counts."""
        self.feat("reset-to-initial-constant")
        t = self.r.choice(["int", "int", "float", "str", "bool"])
        name = self.fresh({"int": "i", "float": "f", "str": "s", "bool": "b"}[t])
        k = {"int": self.int_lit(), "float": self.float_lit(), "str": self.str_lit(), "bool": self.r.choice(["True", "False"])}[t]
        self.emit(f"{name} = {k}")
        v = self.declare(name, t)
        change = {"int": f"{name} = {name} + {self.r.randint(1, 9)}", "float": f"{name} = {name} + {self.float_lit()}", "str": f"{name} = {name} + {self.str_lit()}", "bool": f"{name} = not {name}"}[t]
        form = self.r.choice(["if", "for", "while"])
        if form == "if":
            self.emit(f"if {self.e_bool(1)}:")
            self.emit("    " + change)
        elif form == "for":
            self.emit(f"for {self.fresh('k')} in range({self.r.randint(1, 3)}):")
            self.emit("    " + change)
        else:
            w = self.fresh("w")
            self.emit(f"{w} = {self.r.randint(1, 2)}")
            self.emit(f"while {w} > 0:")
            self.emit(f"    {w} -= 1")
            self.emit("    " + change)
            self.declare(w, "int", ro=True)
        self.observe(v)
        self.emit(f"{name} = {k}")
        self.observe(v)

    def s_busy_wait(self, depth):
        """A wait loop whose body is empty (pass / a host-only print): the condition - a helper with an effect - is still evaluated
        until it fails."""
        fn, cv = self.busy_helper
        self.feat("busy-wait-empty-body")
        self.emit(f"while {fn}() % {self.r.randint(2, 4)} != 0:")
        self.emit("    " + self.r.choice(["pass", "pass", 'print("waiting")']))
        self.observe(cv)

    def s_twin_ifs(self, depth):
        """Two adjacent ifs with the very same condition; the first changes the tested name only inside a nested block: the
        second test is a fresh test."""
        vs = [v for v in self.visible("int") if not v.ro]
        if not vs:
            return self.s_observe(depth)
        v = self.r.choice(vs)
        k = self.r.randint(-3, 6)
        self.feat("adjacent-ifs-same-condition")
        self.emit(f"if {v.name} > {k}:")
        self.ind += 1
        inner = self.r.choice([f"if {v.name} > {k - 50}:", f"for {self.fresh('k')} in range(1):", "try:"])
        self.emit(inner)
        self.emit(f"    {v.name} = {k} - {self.r.randint(0, 3)}")
        if inner == "try:":
            self.emit("except:")
            self.emit("    pass")
        self.emit('mon.write("first")')
        self.ind -= 1
        self.emit(f"if {v.name} > {k}:")
        self.emit('    mon.write("second")')
        self.observe(v)

    def s_empty_arms_call(self, depth):
        """A chain whose arms do nothing on the device (pass / host-only print) still evaluates its conditions - here a helper
        with effects."""
        f = self.r.choice([f for f in self.funcs if f.ret == "int" and not f.pure])
        args = ", ".join(self.expr(t, 2) for t in f.params)
        self.feat("empty-arms-effectful-condition")
        self.emit(f"if {f.name}({args}) > {self.r.randint(-5, 5)}:")
        self.emit("    " + self.r.choice(["pass", 'print("host only")']))
        if self.chance(0.5):
            self.emit("else:")
            self.emit("    pass")
        self.observe()

    def s_single_pass_for(self, depth):
        """A counted loop that runs exactly once (count written as a literal, a foldable expression or a name) inside another loop,
        left early through a conditional break: the break ends the inner loop only."""
        self.feat("single-pass-for-with-break")
        o, i = self.fresh("k"), self.fresh("k")
        cnt = self.r.choice(["1", "3 - 2", 'len("x")', "1", "2 - 1"])
        self.emit(f"for {o} in range({self.r.randint(2, 3)}):")
        self.ind += 1
        self.emit(f"for {i} in range({cnt}):")
        self.ind += 1
        self.emit(f'mon.write(f"in{{{o}}}")')
        self.emit(f"if {o} >= {self.r.randint(0, 1)}:")
        self.emit("    break")
        self.emit('mon.write("tail")')
        self.ind -= 1
        self.emit(f'mon.write(f"after{{{o}}}")')
        self.ind -= 1
        self.obs += 2

    def s_led_around_call(self, depth):
        """The same LED command before and after a helper call that drives that LED: the second command is not redundant."""
        fn, led, op = self.r.choice(self.led_helpers)
        self.feat("led-same-command-around-helper")
        first = self.r.choice(["on", "off"]) if op == "toggle" else ("on" if op == "off" else "off")
        self.emit(f"{led}.{first}()")
        self.emit(f"{fn}()")
        self.emit(f"{led}.{first}()")
        if self.chance(0.5):
            self.emit(f"sleep({self.r.choice([1, 5])})")

    def s_len_loop(self, depth):
        """A list whose length is only known at run time, walked with `for i in range(len(xs))`; expressions on the counter
        go negative (the counter is an ordinary signed integer)."""
        self.feat("range(len(runtime-list))")
        n = self.fresh("n")
        xs = self.fresh("xs")
        i = self.fresh("k")
        ints = [v for v in self.visible("int")]
        src = f"abs({self.r.choice(ints).name}) % 3 + 2" if ints else str(self.r.randint(2, 4))
        self.emit(f"{n} = {src}")
        self.emit(f"{xs} = [q * {self.r.randint(1, 3)} for q in range({n})]")
        self.emit(f"for {i} in range(len({xs})):")
        self.ind += 1
        self.emit(f"mon.write({i} - {self.r.randint(2, 5)})")
        form = self.r.choice(["fstr", "cmp", "abs", "idx"])
        if form == "fstr":
            self.emit(f'mon.write(f"d{{{i} - 1}}e")')
        elif form == "cmp":
            self.emit(f"if {i} - 1 < 0:")
            self.emit(f'    mon.write("first")')
        elif form == "abs":
            self.emit(f"mon.write(abs({i} - 3) + min({i} - 2, 0))")
        else:
            self.emit(f"mon.write({xs}[{i}] + {i})")
        self.ind -= 1
        self.obs += 2
        self.declare(n, "int", ro=True)

    def s_loop_local(self, depth):
        """Directly in the `while True:` body: a name first assigned there from a literal, changed later in the same pass
        (Python re-runs the assignment on every pass)."""
        self.feat("main-loop-literal-local")
        if self.chance(0.3):
            a, b = self.fresh("i"), self.fresh("i")
            x, y = self.r.randint(0, 5), self.r.randint(6, 12)
            self.emit(f"{a}, {b} = {x}, {y}")
            self.emit(f"{a} += {self.r.randint(1, 4)}")
            self.emit(f"{b} = {b} - {a}")
            self.emit(f'mon.write(f"p{{{a}}}q{{{b}}}")')
            self.declare(a, "int")
            self.declare(b, "int")
        else:
            t = self.r.choice(["int", "int", "float", "bool", "str"])
            name = self.fresh({"int": "i", "float": "f", "str": "s", "bool": "b"}[t])
            lit = {"int": self.int_lit(), "float": self.float_lit(), "bool": self.r.choice(["True", "False"]), "str": self.str_lit()}[t]
            self.emit(f"{name} = {lit}")
            v = self.declare(name, t)
            if t == "int":
                self.emit(f"{name} += {self.r.randint(1, 4)}")
            elif t == "float":
                self.emit(f"{name} = {name} + {self.float_lit()}")
            elif t == "bool":
                self.emit(f"{name} = not {name}")
            else:
                self.emit(f"{name} = {name} + {self.str_lit()}")
            self.observe(v)
        self.obs += 1

    def s_for(self, depth):
        self.feat("for-range")
        iv = self.fresh("k")
        if self.chance(0.7) or not self.visible("int"):
            count = str(self.r.randint(0, 4))
        elif self.h("for-bound") and self.chance(0.8):
            # the emitted C loop re-evaluates the bound on every iteration (known finding when the body
            # changes a name the bound reads)
            count = f"abs({self.r.choice(self.visible('int')).name}) % 4"
            self.feat("hz:for-bound-expr")
        else:
            # bound snapshotted into a name the body never assigns
            nv = self.fresh("n")
            if self.chance(0.5):
                self.emit(f"{nv} = abs({self.r.choice(self.visible('int')).name}) % 4")
            else:
                # constant initial value, conditionally changed before the loop (the loop body never assigns it)
                self.emit(f"{nv} = {self.r.randint(0, 3)}")
                self.emit(f"if {self.e_bool(1)}:")
                self.ind += 1
                self.emit(f"{nv} = {self.r.randint(0, 4)}")
                self.ind -= 1
                self.feat("for-range-var-conditional")
            self.declare(nv, "int", ro=True)
            count = nv
            self.feat("for-range-var")
        self.emit(f"for {iv} in range({count}):")
        self.loop_depth += 1
        self.ind += 1
        self.scopes.append({iv: Var(iv, "int", ro=True)})
        n = self.r.randint(1, 3)
        for _ in range(n):
            self.stmt(depth + 1)
        if self.chance(0.6) and not self.pure:
            self.emit(f"mon.write({iv})")
            self.obs += 1
        self.scopes.pop()
        self.ind -= 1
        self.loop_depth -= 1

    def s_while(self, depth):
        self.feat("while")
        w = self.fresh("w")
        self.emit(f"{w} = {self.r.randint(0, 4)}")
        self.declare(w, "int")
        self.emit(f"while {w} > 0:")
        self.loop_depth += 1
        self.ind += 1
        self.scopes.append({})
        # the counter decreases first so that `continue`/`break` cannot make the loop diverge
        self.emit(f"{w} -= 1")
        # hide the counter from random reassignment inside the body
        hidden = None
        for sc in self.scopes:
            if w in sc:
                hidden = (sc, sc.pop(w))
        for _ in range(self.r.randint(1, 3)):
            self.stmt(depth + 1)
        if hidden:
            hidden[0][w] = hidden[1]
        if not self.pure:
            self.emit(f"mon.write({w})")
            self.obs += 1
        self.scopes.pop()
        self.ind -= 1
        self.loop_depth -= 1

    def s_break_if(self, depth):
        if self.in_main_loop and self.loop_depth == 1:
            return self.s_observe(depth)
        self.feat("break")
        self.emit(f"if {self.e_bool(1)}:")
        self.ind += 1
        self.emit("break")
        self.ind -= 1

    def s_continue_if(self, depth):
        if self.in_main_loop and self.loop_depth == 1:
            return self.s_observe(depth)
        self.feat("hz:continue")
        self.emit(f"if {self.e_bool(1)}:")
        self.ind += 1
        self.emit("continue")
        self.ind -= 1

    def s_retype(self, depth):
        cands = [v for v in self.visible() if v.type in ("int",) and not v.ro]
        if not cands:
            return self.s_observe(depth)
        v = self.r.choice(cands)
        self.feat("hz:retype")
        self.emit(f"{v.name} = {self.e_float(1)}")
        v.type = "float"
        self.observe(v)

    def s_aug_widen(self, depth):
        cands = [v for v in self.visible() if v.type in ("int",) and not v.ro]
        if not cands:
            return self.s_observe(depth)
        v = self.r.choice(cands)
        self.feat("hz:aug-widen")
        self.emit(f"{v.name} += {self.float_lit()}")
        v.type = "float"
        self.observe(v)

    # ---- lists ---------------------------------------------------------------------------
    def s_list_new(self, depth):
        if self.in_main_loop and not self.h("list-local"):
            # a list created inside loop() is never freed by the generated code (known finding)
            return self.s_list_op(depth)
        if depth > 0 and not self.h("list-local"):
            return self.s_list_op(depth)
        r = self.r
        et = r.choice(["int", "int", "float", "str"])
        name = self.fresh("L")
        if r.random() < 0.35 and et == "int":
            self.feat("listcomp")
            body = r.choice(["{k} * 2", "{k} + 1", "{k}", "{k} * {k}"]).format(k="q")
            form = r.choice([1, 1, 2, 3, 3])
            if form == 1:
                rng = (r.randint(0, 4),)
            elif form == 2:
                lo = r.randint(-2, 3)
                rng = (lo, lo + r.randint(0, 4))
            else:
                lo = r.randint(-3, 10)
                step = r.choice([1, 2, 3, -1, -2, -3])
                hi = lo + step * r.randint(0, 4) + r.choice([0, 0, 1, -1, 2, -2])
                rng = (lo, hi, step)
                self.feat("listcomp-range3")
            self.emit(f"{name} = [{body} for q in range({', '.join(map(str, rng))})]")
            length = len(range(*rng))
        else:
            n = r.randint(1, 4)
            items = [self.int_lit() if et == "int" else self.float_lit() if et == "float" else self.str_lit()
                     for _ in range(n)]
            if n >= 2 and self.chance(0.4):
                items[r.randrange(1, n)] = items[0]  # duplicates: remove() must drop the first occurrence only
                self.feat("list-duplicates")
            self.emit(f"{name} = [{', '.join(items)}]")
            length = n
            self.feat("list-literal-" + et)
        v = self.declare(name, f"list[{et}]", length=length, frozen=r.random() < 0.4)
        self.observe(v)

    def s_list_op(self, depth):
        r = self.r
        lists = self.visible(pred=lambda v: v.type.startswith("list[") and not v.frozen)
        if not lists:
            return self.s_observe(depth)
        v = r.choice(lists)
        et = v.type[5:-1]
        straight = depth == 0 and self.loop_depth == 0
        if not straight and not self.h("stale-len"):
            # static length bookkeeping is flow-insensitive: mutate only in straight-line global code,
            # elsewhere only read
            if v.length:
                self.observe(v)
            return
        op = r.choice(["append", "append", "index_write", "remove"])
        if op == "append":
            self.feat("list-append")
            if et == "str":
                svars = self.visible("str")
                if self.h("list-append-literal") and self.chance(0.7):
                    self.feat("hz:list-str-append-literal")
                    val = self.str_lit()
                elif svars:
                    # appending a string literal to a list of str does not compile (known finding)
                    val = self.r.choice(svars).name
                else:
                    return self.observe(v)
            elif et == "float":
                fvars = self.visible("float")
                if self.h("list-append-literal") and self.chance(0.7):
                    self.feat("hz:list-float-append-literal")
                    val = self.float_lit()
                elif fvars:
                    # appending a float literal (a C++ double) to a list of float does not compile (known finding)
                    val = self.r.choice(fvars).name
                else:
                    return self.observe(v)
            else:
                val = self.int_lit()
            self.emit(f"{v.name}.append({val})")
            if straight:
                v.length = (v.length or 0) + 1
            else:
                self.feat("hz:list-mutate-nested")
                v.length = None
        elif op == "remove" and et == "int" and straight and v.length:
            # remove an element that is certainly present (through an element read or a run-time variable)
            self.feat("list-remove")
            idx = self.r.randint(0, v.length - 1)
            if self.chance(0.5):
                self.emit(f"{v.name}.remove({v.name}[{idx}])")
            else:
                tmp = self.fresh("rm")
                self.emit(f"{tmp} = {v.name}[{idx}]")
                self.declare(tmp, "int", ro=True)
                self.emit(f"{v.name}.remove({tmp})")
            v.length -= 1
            # observe every remaining element and the length
            for j in range(v.length):
                self.emit(f"mon.write({v.name}[{j}])")
            self.emit(f"mon.write(len({v.name}))")
            self.obs += v.length + 1
        else:
            if v.length:
                self.observe(v)

    # ---- functions -----------------------------------------------------------------------
    def call_once(self, f):
        args = ", ".join(self.expr(t, 2) for t in f.params)
        if f.ret is None:
            self.emit(f"{f.name}({args})")
        else:
            t = f.ret
            name = self.fresh({"int": "i", "float": "f", "str": "s", "bool": "b"}[t])
            self.emit(f"{name} = {f.name}({args})")
            v = self.declare(name, t)
            self.observe(v)

    def s_call_stmt(self, depth):
        f = self.r.choice(self.funcs)
        args = ", ".join(self.expr(t, 2) for t in f.params)
        self.feat("call-stmt")
        if f.ret is None:
            self.emit(f"{f.name}({args})")
        else:
            t = f.ret
            name = self.fresh({"int": "i", "float": "f", "str": "s", "bool": "b"}[t])
            if self.in_main_loop and depth > 1 and not self.h("first-assign-in-loop-branch"):
                cands = [v for v in self.visible(t) if not v.ro]
                if not cands:
                    self.emit(f"mon.write({f.name}({args}))")
                    self.obs += 1
                    return
                v = self.r.choice(cands)
                self.emit(f"{v.name} = {f.name}({args})")
                self.observe(v)
                return
            self.emit(f"{name} = {f.name}({args})")
            v = self.declare(name, t)
            self.observe(v)

    def gen_function(self):
        r = self.r
        name = self.fresh("fn")
        nparams = r.randint(0, 3)
        ptypes = [r.choice(["int", "int", "float", "str"]) for _ in range(nparams)]
        ret = r.choice(["int", "int", "float", "str", None])
        pure = ret is not None and self.chance(0.5)
        pnames = [f"p{idx}" for idx in range(nparams)]
        # a helper called as a bare statement gets its parameter types from annotations only (call-site
        # inference does not run for expression statements - known finding), so non-int parameters of
        # such helpers are annotated in the clean profile
        ann = {"int": "int", "float": "float", "str": "str"}
        unannotated_ok = (ret is None and self.h("stmt-call-types")) or (ret is not None and self.h("param-retype"))
        if not unannotated_ok:
            # non-int parameters are annotated in the clean profile: an unannotated parameter is typed int by the first
            # parse of the body and re-typed by later uses (known findings KF-stmt-call-types / KF-param-retype-in-body);
            # unannotated float/str parameters are exercised by the poly-call family of C02
            sig = ", ".join(p if t == "int" else f"{p}: {ann[t]}" for p, t in zip(pnames, ptypes))
            if any(t != "int" for t in ptypes):
                self.feat("annotated-params")
        else:
            sig = ", ".join(pnames)
            if ret is None and any(t != "int" for t in ptypes):
                self.feat("hz:stmt-call-types")
            if self.h("param-retype") and any(t != "int" for t in ptypes):
                self.feat("hz:param-retype")
        self.emit(f"def {name}({sig}):")
        self.feat("def")
        self.in_function = True
        saved_scopes = self.scopes
        # functions see only their parameters (and the serial monitor / leds)
        # an unannotated non-int parameter that the body re-assigns is typed inconsistently by the transpiler (known
        # finding KF-param-retype-in-body): such parameters are read-only in the clean profile
        annotated = not unannotated_ok
        self.scopes = [{p: Var(p, t, scope="function", ro=(t != "int" and not annotated and not self.h("param-retype")))
                        for p, t in zip(pnames, ptypes)}]
        saved_loop, saved_main = self.loop_depth, self.in_main_loop
        self.loop_depth, self.in_main_loop = 0, False
        self.ind += 1
        gvar = None
        self.pure = pure
        ints = [v for v in saved_scopes[0].values() if v.type == "int"]
        if ints and self.chance(0.35) and not pure:
            gvar = r.choice(ints)
            self.emit(f"global {gvar.name}")
            self.emit(f"{gvar.name} += 1")
            self.feat("global-stmt")
        body_start = len(self.lines)
        for _ in range(r.randint(1, 3)):
            self.stmt(1)
        if ret is None and len(self.lines) == body_start:
            self.emit("pass")
        if ret is not None and self.chance(0.3):
            # an if/elif/else chain whose first and last arms leave the function while a middle arm falls through:
            # everything after the chain is still reachable
            self.feat("exit-chain-with-fallthrough")
            self.emit(f"if {self.e_bool(1)}:")
            self.ind += 1
            self.emit(f"return {self.expr(ret, 1)}")
            self.ind -= 1
            self.emit(f"elif {self.e_bool(1)}:")
            self.ind += 1
            if pure:
                self.emit("pass")
            else:
                self.emit(f"mon.write({self.str_lit()})")
            self.ind -= 1
            self.emit("else:")
            self.ind += 1
            self.emit(f"return {self.expr(ret, 1)}")
            self.ind -= 1
            if not pure:
                self.emit(f"mon.write({self.str_lit()})")
        if ret is not None:
            if self.chance(0.4):
                self.feat("multi-return")
                self.emit(f"if {self.e_bool(1)}:")
                self.ind += 1
                if ret == "float" and self.chance(0.5):
                    # one arm returns a whole number, the other a fraction: the function's result type is the wider one
                    self.feat("multi-return-int-and-float")
                    self.emit(f"return {self.r.choice(['10', '0', '3', '-1'])}")
                else:
                    self.emit(f"return {self.expr(ret, 1)}")
                self.ind -= 1
            self.emit(f"return {self.expr(ret, 1)}")
        self.ind -= 1
        self.scopes = saved_scopes
        self.loop_depth, self.in_main_loop = saved_loop, saved_main
        self.in_function = False
        self.pure = False
        self.emit("")
        fobj = Func(name, ptypes, ret, gvar.name if gvar else None, pure)
        self.funcs.append(fobj)
        return fobj

    # ---- program -------------------------------------------------------------------------
    def generate(self) -> str:
        r = self.r
        self.lines = list(HEADER)
        if self.use_led:
            for idx in range(r.choice([0, 1, 1, 2])):
                pin = [5, 6, 9][idx]
                name = f"led{idx}"
                self.lines.append(f"{name} = Led({pin})")
                self.leds.append((name, pin))
        self.emit("")
        # a few globals first so functions may use `global`
        for _ in range(r.randint(1, 3)):
            self.s_assign_new(0)
        if self.use_lists:
            for _ in range(r.choice([0, 1, 1, 2])):
                self.s_list_new(0)
                if self.chance(0.6):
                    self.s_list_op(0)
        if self.use_funcs:
            made = [self.gen_function() for _ in range(r.choice([0, 1, 1, 2, 3]))]
            # every helper is called at least once (an uncalled helper keeps an all-int signature that may
            # not fit its body - known finding)
            for f in made:
                if self.h("uncalled-helper") and self.chance(0.5):
                    self.feat("hz:uncalled-helper")
                    continue
                self.call_once(f)
        self.busy_helper = None
        if self.use_funcs and self.chance(0.4):
            # a counter advanced by a helper: waited on with an EMPTY loop body further down
            cnt = self.fresh("cnt")
            fn = self.fresh("bump")
            self.emit(f"{cnt} = 0")
            cv = self.declare(cnt, "int", ro=True)
            self.emit(f"def {fn}():")
            self.emit(f"    global {cnt}")
            self.emit(f"    {cnt} += 1")
            self.emit(f"    return {cnt}")
            self.emit("")
            self.busy_helper = (fn, cv)
        self.led_helpers = []
        if self.use_led and self.leds and self.chance(0.5):
            led, _pin = r.choice(self.leds)
            op = r.choice(["off", "on", "toggle"])
            fn = self.fresh("flip")
            self.emit(f"def {fn}():")
            self.emit(f"    {led}.{op}()")
            self.emit(f"    sleep({r.choice([1, 2])})")
            self.emit("")
            self.led_helpers.append((fn, led, op))
        for _ in range(max(2, self.size // 2 + r.randint(-2, 2))):
            self.stmt(0)
        if self.main_loop:
            self.feat("main-loop")
            cnt = self.fresh("tick")
            self.emit(f"{cnt} = 0")
            self.declare(cnt, "int")
            self.emit("while True:")
            self.in_main_loop = True
            self.loop_depth = 1
            self.ind += 1
            self.scopes.append({})
            self.emit(f"{cnt} += 1")
            self.emit(f"mon.write({cnt})")
            for _ in range(max(2, self.size // 2 + r.randint(-2, 2))):
                self.stmt(1)
            self.emit(f"sleep({r.choice([1, 10, 50])})")
            self.scopes.pop()
            self.ind -= 1
            self.in_main_loop = False
            self.loop_depth = 0
        return "\n".join(self.lines) + "\n"


def generate(seed_parts, profile="clean", **kw):
    from ..common import rng_for

    rng = rng_for(*seed_parts)
    g = ProgGen(rng, profile, **kw)
    src = g.generate()
    return {"source": src, "features": sorted(g.features), "obs": g.obs, "main_loop": g.main_loop,
            "hazards": sorted(g.hazards)}
