"""List/str-heavy program generator for C09 (memory safety, per-pass heap stability)."""
from __future__ import annotations

HDR = """from Reduino import target
target("COM3")
from Reduino.Communication import SerialMonitor
from Reduino.Utils import sleep

mon = SerialMonitor(9600)
"""

HAZARDS = ["list-local", "list-alias", "list-reassign-loop", "list-grow"]


class ListGen:
    def __init__(self, rng, hazards=()):
        self.r = rng
        self.hz = set(hazards)
        self.L = HDR.splitlines()
        self.lists = {}   # name -> {"t": type, "vals": python list mirror}
        self.strs = {}    # name -> python str mirror (setup-time value)
        self.n = 0
        self.features = set()

    def fresh(self, p):
        self.n += 1
        return f"{p}{self.n}"

    def lit(self, t):
        r = self.r
        if t == "int":
            return r.randint(-9, 30)
        if t == "float":
            return r.choice([0.5, 1.5, 2.25, -0.75, 10.0, 3.125])
        return r.choice(["a", "bb", "xyz", "", "hello", "q r"])

    def src(self, v):
        return repr(v) if not isinstance(v, str) else '"' + v + '"'

    def new_list(self, ind=""):
        r = self.r
        t = r.choice(["int", "int", "float", "str"])
        name = self.fresh("L")
        if t == "int" and r.random() < 0.4:
            k = r.choice([1, 2, 3])
            form = r.choice(["q * {k}", "q + {k}", "q", "q * q"]).format(k=k)
            shape = r.choice([1, 2, 3, 3])
            if shape == 1:
                rng = (r.randint(0, 5),)
            elif shape == 2:
                lo = r.randint(-3, 4)
                rng = (lo, lo + r.randint(0, 5))
            else:
                lo = r.randint(-4, 12)
                step = r.choice([1, 2, 3, -1, -2, -3, -4])
                rng = (lo, lo + step * r.randint(0, 4) + r.choice([0, 1, -1, 2, -2]), step)
                self.features.add("listcomp-range3")
            self.L.append(f"{ind}{name} = [{form} for q in range({', '.join(map(str, rng))})]")
            vals = [eval(form, {"q": q}) for q in range(*rng)]
            self.features.add("listcomp")
        else:
            vals = [self.lit(t) for _ in range(r.randint(1, 5))]
            if len(vals) >= 2 and r.random() < 0.4:
                vals[r.randrange(1, len(vals))] = vals[0]
                self.features.add("duplicates")
            self.L.append(f"{ind}{name} = [{', '.join(self.src(v) for v in vals)}]")
            self.features.add("list-literal-" + t)
        self.lists[name] = {"t": t, "vals": list(vals)}
        return name

    def read_ops(self, ind, name):
        r = self.r
        info = self.lists[name]
        vals = info["vals"]
        out = []
        if vals:
            i = r.randint(-len(vals), len(vals) - 1)
            out.append(f"{ind}mon.write({name}[{i}])")
            self.features.add("index-neg" if i < 0 else "index-pos")
            if r.random() < 0.5:
                n = len(vals)
                it = self.fresh("k")
                out.append(f"{ind}for {it} in range({n}):")
                out.append(f"{ind}    mon.write({name}[{it}])")
                self.features.add("index-loop-var")
            if r.random() < 0.3 and info["t"] in ("int", "float"):
                acc = self.fresh("acc")
                it = self.fresh("k")
                out.append(f"{ind}{acc} = {'0' if info['t'] == 'int' else '0.0'}")
                out.append(f"{ind}for {it} in range({len(vals)}):")
                out.append(f"{ind}    {acc} = {acc} + {name}[{it} - {len(vals)}]")
                out.append(f"{ind}mon.write({acc})")
                self.features.add("index-computed-negative")
        out.append(f"{ind}mon.write(len({name}))")
        return out

    def mutate_setup(self, name):
        r = self.r
        info = self.lists[name]
        out = []
        for _ in range(r.randint(1, 4)):
            op = r.choice(["append", "append", "remove", "append_var"])
            if op == "remove" and info["vals"]:
                v = r.choice(info["vals"])
                removed = False
                out.append(f"{name}.remove({self.src(v)})" if info["t"] == "int" else None)
                if info["t"] == "int" and r.random() < 0.5:
                    # remove through a run-time value, then use the folded length as an index bound
                    tmp = self.fresh("rv")
                    out[-1] = f"{tmp} = {name}[{info['vals'].index(v)}]"
                    out.append(f"{name}.remove({tmp})")
                    self.features.add("remove-runtime-value")
                    if r.random() < 0.6 and len(info["vals"]) >= 2:
                        # ... and afterwards remove another element by literal: the folded length must follow both removals
                        info["vals"].remove(v)
                        w = self.lit("int")
                        out.append(f"{name}.append({w})")
                        info["vals"].append(w)
                        first = info["vals"][0]
                        out.append(f"{name}.remove({first})")
                        info["vals"].remove(first)
                        removed = True
                        self.features.add("remove-runtime-then-literal")
                if info["t"] != "int":
                    # remove through an element read (literal float/str arguments do not compile - known finding)
                    idx = info["vals"].index(v)
                    out[-1] = f"{name}.remove({name}[{idx}])"
                if not removed:
                    info["vals"].remove(v)
                self.features.add("remove")
                if info["vals"]:
                    out.append(f"mon.write({name}[len({name}) - 1])")
                    it = self.fresh("k")
                    out.append(f"for {it} in range(len({name})):")
                    out.append(f"    mon.write({name}[{it}])")
                    self.features.add("index-by-len")
            elif info["t"] == "int":
                v = self.lit("int")
                out.append(f"{name}.append({v})")
                info["vals"].append(v)
                self.features.add("append")
            else:
                v = self.lit(info["t"])
                tmp = self.fresh("e")
                out.append(f"{tmp} = {self.src(v)}")
                out.append(f"{name}.append({tmp})")
                info["vals"].append(v)
                self.features.add("append-var")
        return [x for x in out if x]

    def generate(self):
        r = self.r
        for _ in range(r.randint(1, 4)):
            self.new_list()
        names = list(self.lists)
        for nm in names:
            self.L += self.read_ops("", nm)
            if r.random() < 0.7:
                self.L += self.mutate_setup(nm)
                self.L += self.read_ops("", nm)
        same = {}
        for nm in names:
            same.setdefault(self.lists[nm]["t"], []).append(nm)
        pairs = [v for v in same.values() if len(v) >= 2]
        self.swap_pair = None
        if pairs and r.random() < 0.7:
            a1, b1 = r.sample(r.choice(pairs), 2)
            self.L.append(f"{a1}, {b1} = {b1}, {a1}")
            self.lists[a1], self.lists[b1] = self.lists[b1], self.lists[a1]
            self.L += self.read_ops("", a1)
            self.L += self.read_ops("", b1)
            self.features.add("list-swap")
            self.swap_pair = (a1, b1)
        ints = [nm for nm in names if self.lists[nm]["t"] == "int" and self.lists[nm]["vals"]]
        if len(ints) >= 2 and r.random() < 0.5:
            # a helper whose parameter is spelled like a global list: inside it len()/indices are those of the ARGUMENT
            g, other = r.sample(ints, 2)
            fn = self.fresh("total")
            self.L += [f"def {fn}({g}):", "    acc = 0", f"    for i in range(len({g})):", f"        acc = acc + {g}[i]",
                       f"    mon.write({g}[len({g}) - 1])", "    return acc"]
            for arg in (other, g, other):
                t = self.fresh("t")
                self.L += [f"{t} = {fn}({arg})", f"mon.write({t})"]
            self.features.add("param-named-like-global-list")
        if ints and r.random() < 0.4:
            # an existing list re-assigned from another named list (a deep copy on the device), then grown and shrunk again
            srcn = r.choice(ints)
            cp = self.fresh("cp")
            k = len(self.lists[srcn]["vals"])
            self.L += [f"{cp} = [{', '.join(['9'] * k)}]", f"{cp} = {srcn}", f"{cp}.append(901)", f"mon.write({cp}[-1])", f"mon.write({cp}[0])",
                       f"{cp}.remove(901)", f"mon.write(len({cp}))"]
            self.features.add("copy-assign-then-append")
        strs_l = [nm for nm in names if self.lists[nm]["t"] == "str" and self.lists[nm]["vals"]]
        self.loop_extra = []
        if strs_l and r.random() < 0.5:
            # a declared list of strings re-assigned from another named one (element-wise deep copy), on every pass as well
            srcn = r.choice(strs_l)
            cp = self.fresh("scp")
            k = len(self.lists[srcn]["vals"])
            self.L += [f"{cp} = [{', '.join(['\"z\"'] * k)}]", f"{cp} = {srcn}", f"mon.write({cp}[0])"]
            self.loop_extra += [f"{cp} = {srcn}", f"te_{cp} = {srcn}[0]", f"{srcn}.append(te_{cp})", f"mon.write({cp}[0])", f"{srcn}.remove(te_{cp})", f"mon.write(len({cp}))"]
            self.features.add("string-list-copy-assign")
        if len(ints) >= 2 and r.random() < 0.4:
            # a helper that hands back one of its list parameters; the result replaces a declared list, which then grows and shrinks
            a, b = r.sample(ints, 2)
            if len(self.lists[a]["vals"]) == len(self.lists[b]["vals"]):
                fn = self.fresh("choose")
                act = self.fresh("act")
                k = len(self.lists[a]["vals"])
                self.L += [f"def {fn}(xs, ys, k):", "    if k > 0:", "        return xs", "    return ys",
                           f"{act} = [{', '.join(['0'] * k)}]", f"{act} = {fn}({a}, {b}, 1)", f"mon.write({act}[0])"]
                self.loop_extra += [f"{act} = {fn}({a}, {b}, count % 2)", f"{act}.append(900 + count)", f"mon.write({a}[0])", f"mon.write({act}[-1])",
                                    f"{act}.remove(900 + count)"]
                self.features.add("helper-returns-list-parameter")
        if r.random() < 0.5:
            # a list switched on every pass between a full and an EMPTY source whose lengths are only known at run time
            # (whatever the target held before each assignment has to be released: no growth from pass to pass)
            k = self.fresh("sw")
            i = self.L.index("from Reduino.Utils import sleep")
            if "from Reduino.Core import analog_read" not in self.L:
                self.L.insert(i, "from Reduino.Core import analog_read")
            self.L += [f"n{k} = analog_read(0) % 3 + {r.choice([1, 2, 3])}", f"full{k} = [q + {r.randint(1, 9)} for q in range(n{k})]", f"none{k} = [q for q in range(n{k} - n{k})]",
                       f"{k} = [q for q in range(n{k})]", f"mon.write(len({k}))"]
            order = r.choice([("full", "none"), ("none", "full"), ("none", "none"), ("full", "full")])
            for which in order:
                self.loop_extra += [f"{k} = {which}{k}", f"mon.write(len({k}))"] + ([f"mon.write({k}[0])"] if which == "full" else [])
            self.features.add("switch-assign-empty-and-full")
        if r.random() < 0.4:
            # a declared list re-assigned from a conditional expression that may yield the list itself (never mutated afterwards)
            k = self.fresh("ce")
            i = self.L.index("from Reduino.Utils import sleep")
            if "from Reduino.Core import analog_read" not in self.L:
                self.L.insert(i, "from Reduino.Core import analog_read")
            self.L += [f"n{k} = analog_read(0) % 3 + 2", f"{k} = [q + 1 for q in range(n{k})]", f"o{k} = [q + {r.randint(5, 9)} for q in range(n{k})]"]
            cond = r.choice(["count % 2 == 0", "count > 1", "count > 100", "count % 3 == 1"])
            form = r.choice([f"{k} = o{k} if {cond} else {k}", f"{k} = {k} if {cond} else o{k}"])
            self.loop_extra += [form, f"mon.write({k}[0])", f"mon.write(len({k}))"]
            self.features.add("list-assign-from-conditional-self")
        if r.random() < 0.4:
            # a list of lists: one row grows and shrinks by the same element on every pass and is walked by its current length
            g = self.fresh("grid")
            rows = [[r.randint(1, 9) for _ in range(r.randint(1, 3))] for _ in range(2)]
            self.L += [f"{g} = {rows}", f"mon.write(len({g}))", f"mon.write(len({g}[0]))", f"mon.write({g}[1][0])"]
            j = self.fresh("j")
            row = r.choice([0, 1])
            self.loop_extra += [f"{g}[{row}].append(90 + count)", f"mon.write(len({g}[{row}]))", f"for {j} in range(len({g}[{row}])):", f"    mon.write({g}[{row}][{j}])",
                                f"{g}[{row}].remove(90 + count)", f"mon.write({g}[{row}][len({g}[{row}]) - 1])", f"mon.write(len({g}[{1 - row}]))"]
            if r.random() < 0.5:
                # ... or shrinks first and grows back (any length folded from the literal is too large in between)
                first = rows[row][0]
                if rows[row].count(first) == 1 and len(rows[row]) >= 2:
                    self.loop_extra += [f"{g}[{row}].remove({first})", f"mon.write({g}[{row}][len({g}[{row}]) - 1])", f"for {j}b in range(len({g}[{row}])):", f"    mon.write({g}[{row}][{j}b])",
                                        f"{g}[{row}].append({first})"]
            self.features.add("nested-list-row-append-remove")
        if r.random() < 0.4:
            # back-to-back appends to one list, the later argument indexing an element the earlier append created (Fibonacci style)
            k = self.fresh("seq")
            self.L += [f"{k} = [1]", f"{k}.append(1)", f"{k}.append({k}[-1] + {k}[-2])", f"mon.write({k}[2])"]
            self.loop_extra += [f"{k}.append({k}[-1] + {k}[-2])", f"{k}.append({k}[-1] - {k}[-3])", f"mon.write({k}[-1])", f"{k}.remove({k}[-1])", f"{k}.remove({k}[-1])", f"mon.write(len({k}))"]
            self.features.add("consecutive-appends-reading-previous")
        if "list-alias" in self.hz:
            src = r.choice(names)
            al = self.fresh("alias")
            self.L.append(f"{al} = {src}")
            self.L.append(f"{src}.append({self.src(self.lit(self.lists[src]['t'])) if self.lists[src]['t'] == 'int' else src + '[0]'})")
            self.L.append(f"mon.write({al}[0])")
            self.features.add("hz:list-alias")
        # strings
        s = self.fresh("s")
        self.L.append(f"{s} = \"{r.choice(['ab', 'x', 'hello'])}\"")
        self.L.append(f"{s} = {s} + \"{r.choice(['!', 'zz', ''])}\"")
        self.L.append(f"mon.write({s})")
        self.L.append(f"mon.write(len({s}))")
        self.L.append("count = 0")
        self.L.append("while True:")
        ind = "    "
        self.L.append(f"{ind}count += 1")
        self.L.append(f"{ind}mon.write(count)")
        for line in getattr(self, "loop_extra", []):
            self.L.append(ind + line)
        for nm in names:
            info = self.lists[nm]
            if r.random() < 0.8:
                self.L += self.read_ops(ind, nm)
            if r.random() < 0.6:
                # append + remove the same element: live data is constant from pass to pass
                if info["t"] == "int":
                    v = 77 + r.randint(0, 5)
                    self.L.append(f"{ind}{nm}.append({v})")
                    self.L.append(f"{ind}mon.write({nm}[-1])")
                    self.L.append(f"{ind}{nm}.remove({v})")
                elif info["vals"]:
                    # (one temporary per list: a name shared by lists of different element types would be re-typed - known finding)
                    self.L.append(f"{ind}tmp_{nm} = {nm}[0]")
                    self.L.append(f"{ind}{nm}.append(tmp_{nm})")
                    self.L.append(f"{ind}{nm}.remove(tmp_{nm})")
                self.features.add("loop-append-remove")
            if "list-grow" in self.hz and info["t"] == "int":
                self.L.append(f"{ind}{nm}.append(count)")
                self.features.add("hz:list-grow")
        for nm in names:
            info = self.lists[nm]
            if info["vals"] and r.random() < 0.4:
                # rotate idiom: the appended element is read from the list itself
                self.L.append(f"{ind}{nm}.append({nm}[0])")
                self.L.append(f"{ind}{nm}.remove({nm}[0])")
                self.L.append(f"{ind}mon.write({nm}[-1])")
                first = info["vals"].pop(0)
                info["vals"].append(first)
                self.features.add("rotate-self-element")
                break
        if r.random() < 0.4:
            # a one-element list emptied and refilled on every pass; a guarded append/remove pair with a negative index read
            self.L.insert(self.L.index("count = 0"), "pending = [0]")
            self.L.append(f"{ind}pending.remove(count - 1)")
            self.L.append(f"{ind}pending.append(count)")
            self.L.append(f"{ind}mon.write(pending[0])")
            self.features.add("single-element-remove-append")
        if r.random() < 0.4:
            self.L.insert(self.L.index("count = 0"), "gl = [7, 8, 9]")
            self.L.append(f"{ind}if count > 2:")
            self.L.append(f"{ind}    gl.append(count)")
            self.L.append(f"{ind}mon.write(gl[-1])")
            self.L.append(f"{ind}mon.write(gl[-3])")
            self.L.append(f"{ind}if count > 2:")
            self.L.append(f"{ind}    gl.remove(count)")
            self.features.add("guarded-append-negative-index")
        if getattr(self, "swap_pair", None) and r.random() < 0.6 and \
                len(self.lists[self.swap_pair[0]]["vals"]) == len(self.lists[self.swap_pair[1]]["vals"]) > 0:
            # swapping on every pass is only index-safe (and len()-stable) for lists of equal length
            a1, b1 = self.swap_pair
            self.L.append(f"{ind}{a1}, {b1} = {b1}, {a1}")
            self.L.append(f"{ind}mon.write(len({a1}))")
            self.features.add("list-swap-in-loop")
        if "list-local" in self.hz:
            t = r.choice(["int", "str"])
            vals = [self.lit(t) for _ in range(r.randint(1, 3))]
            self.L.append(f"{ind}local_list = [{', '.join(self.src(v) for v in vals)}]")
            self.L.append(f"{ind}mon.write(local_list[0])")
            self.features.add("hz:list-local")
        if "list-reassign-loop" in self.hz:
            nm = r.choice(names)
            info = self.lists[nm]
            vals = [self.lit(info["t"]) for _ in range(len(info["vals"]))]
            if vals and info["t"] == "int" and r.random() < 0.6:
                # rebuilt from its own elements (shift register / element-wise update): the old block is still being read
                k = len(vals)
                if r.random() < 0.5:
                    elems = [f"{nm}[{i + 1}]" for i in range(k - 1)] + ["count"]
                    self.L.append(f"{ind}{nm} = [{', '.join(elems)}]")
                else:
                    self.L.append(f"{ind}{nm} = [{nm}[i] + 1 for i in range({k})]")
                self.L.append(f"{ind}mon.write({nm}[0])")
                self.features.add("hz:list-reassign-loop")
                self.features.add("self-referential-rebuild")
            elif vals:
                self.L.append(f"{ind}{nm} = [{', '.join(self.src(v) for v in vals)}]")
                self.features.add("hz:list-reassign-loop")
        self.L.append(f"{ind}{s} = \"p\" + str(count % 3)")
        self.L.append(f"{ind}{s} += \"-tail\"")
        self.L.append(f"{ind}mon.write({s})")
        self.L.append(f"{ind}mon.write(len({s}))")
        self.L.append(f"{ind}sleep(5)")
        return "\n".join(self.L) + "\n"


def generate(seed_parts, hazards=()):
    from ..common import rng_for

    g = ListGen(rng_for(*seed_parts), hazards)
    return {"source": g.generate(), "features": sorted(g.features)}
