"""Random actuator operation histories (C04): in-range (compared with the host classes) and
out-of-range (clamp monitor only)."""
from __future__ import annotations

HDR = """from Reduino import target
target("COM3")
from Reduino.Actuators import Led, RGBLed, Servo, DCMotor
from Reduino.Communication import SerialMonitor
from Reduino.Utils import sleep

mon = SerialMonitor(9600)
"""


def fnum(x):
    if isinstance(x, float):
        return repr(round(x, 4))
    return str(x)


class ActGen:
    def __init__(self, rng, *, in_range=True, hazards=()):
        self.r = rng
        self.in_range = in_range
        self.hazards = set(hazards)
        self.lines = []
        self.ind = 0
        self.nvar = 0
        self.devices = []  # (kind, name, info)
        self.tol_pins = set()
        self.motor_pins = set()
        self.features = set()
        self.bounds = {}

    def emit(self, s):
        self.lines.append("    " * self.ind + s)

    def arg(self, value):
        """Literal, or routed through a fresh variable (run-time path of the emitter)."""
        if self.r.random() < 0.4:
            self.nvar += 1
            name = f"a{self.nvar}"
            self.emit(f"{name} = {fnum(value)}")
            self.features.add("arg-via-variable")
            return name
        self.features.add("arg-literal")
        return fnum(value)

    def byte(self):
        r = self.r
        if self.in_range:
            return r.choice([0, 1, 2, 127, 128, 254, 255, r.randint(0, 255)])
        return r.choice([-1, 256, 300, -200, 1000, 255, 0, r.randint(-500, 800)])

    def declare(self):
        r = self.r
        pins = [2, 3, 4, 5, 6, 7, 8, 9, 10, 11, 12, 13, 16, 17, 18, 19]
        r.shuffle(pins)
        kinds = []
        for kind in ("led", "rgb", "servo", "motor"):
            for _ in range(r.choice([0, 1, 1, 2] if kind in ("led",) else [0, 1, 1])):
                kinds.append(kind)
        if not kinds:
            kinds = [r.choice(["led", "rgb", "servo", "motor"])]
        r.shuffle(kinds)
        for i, kind in enumerate(kinds):
            name = f"{kind}{i}"
            if kind == "led":
                p = pins.pop()
                self.emit(f"{name} = Led({p})")
                self.devices.append((kind, name, {"pin": p}))
            elif kind == "rgb":
                ps = [pins.pop() for _ in range(3)]
                self.emit(f"{name} = RGBLed({ps[0]}, {ps[1]}, {ps[2]})")
                self.devices.append((kind, name, {"pins": ps, "color": [0, 0, 0]}))
            elif kind == "servo":
                p = pins.pop()
                if r.random() < 0.5:
                    lo, hi, plo, phi = 0.0, 180.0, 544, 2400
                    self.emit(f"{name} = Servo({p})")
                else:
                    lo = r.choice([0.0, 10.0, 45.0, 22.5, 7.25])
                    hi = lo + r.choice([90.0, 180.0, 120.0, 135.5])
                    plo = r.choice([500, 600, 1000])
                    phi = plo + r.choice([1000, 1500, 1900])
                    if r.random() < 0.35:
                        # constructor bounds named by user variables (initialised with literals, so they are set before any device state)
                        self.emit(f"{name}_lo = {lo}")
                        self.emit(f"{name}_phi = {phi}")
                        self.emit(f"{name} = Servo({p}, min_angle={name}_lo, max_angle={hi}, min_pulse_us={plo}, max_pulse_us={name}_phi)")
                        self.features.add("ctor-args-via-variables")
                    else:
                        self.emit(f"{name} = Servo({p}, min_angle={lo}, max_angle={hi}, min_pulse_us={plo}, max_pulse_us={phi})")
                self.devices.append((kind, name, {"pin": p, "lo": lo, "hi": hi, "plo": plo, "phi": phi}))
                self.bounds[p] = (lo, hi, plo, phi)
            else:
                ps = [pins.pop() for _ in range(3)]
                self.emit(f"{name} = DCMotor({ps[0]}, {ps[1]}, {ps[2]})")
                self.devices.append((kind, name, {"pins": ps}))
                self.tol_pins.add(ps[2])
                self.motor_pins.update(ps)

    def getters(self, kind, name):
        if self.r.random() < 0.3:
            # the getter results stored in fresh variables first (their declared type must hold the value)
            self.nvar += 1
            n = self.nvar
            self.features.add("getter-via-variable")
            if kind == "led":
                self.emit(f"gs{n} = {name}.get_state()")
                self.emit(f"gb{n} = {name}.get_brightness()")
                self.emit(f"mon.write(int(gs{n}))")
                self.emit(f"mon.write(gb{n})")
            elif kind == "servo":
                self.emit(f"ga{n} = {name}.read()")
                self.emit(f"gp{n} = {name}.read_us()")
                self.emit(f"mon.write(ga{n})")
                self.emit(f"mon.write(gp{n})")
            elif kind == "motor":
                self.emit(f"gv{n} = {name}.get_speed()")
                self.emit(f"gw{n} = {name}.get_applied_speed()")
                self.emit(f"gi{n} = {name}.is_inverted()")
                self.emit(f"gm{n} = {name}.get_mode()")
                self.emit(f"mon.write(gv{n})")
                self.emit(f"mon.write(gw{n})")
                self.emit(f"mon.write(int(gi{n}))")
                self.emit(f"mon.write(gm{n})")
            return
        if kind == "led":
            self.emit(f"mon.write(int({name}.get_state()))")
            self.emit(f"mon.write({name}.get_brightness())")
        elif kind == "servo":
            self.emit(f"mon.write({name}.read())")
            self.emit(f"mon.write({name}.read_us())")
        elif kind == "motor":
            self.emit(f"mon.write({name}.get_speed())")
            self.emit(f"mon.write({name}.get_applied_speed())")
            self.emit(f"mon.write(int({name}.is_inverted()))")
            self.emit(f"mon.write({name}.get_mode())")

    def op(self):
        r = self.r
        kind, name, info = r.choice(self.devices)
        ok = self.in_range
        if kind == "led":
            o = r.choice(["on", "off", "toggle", "set", "set", "blink", "fade_in", "fade_out", "flash"])
            self.features.add("led." + o)
            if o in ("on", "off", "toggle"):
                self.emit(f"{name}.{o}()")
            elif o == "set":
                if ok and r.random() < 0.15:
                    # a fraction for a whole-number parameter: both worlds drop the fraction (no rounding up), literal or not
                    self.features.add("led.set:fractional-value")
                    self.emit(f"{name}.set_brightness({self.arg(r.choice([127.6, 0.9, 254.5, 1.5, 99.99, 200.75]))})")
                else:
                    self.emit(f"{name}.set_brightness({self.arg(self.byte())})")
            elif o == "blink":
                d = r.choice([0, 1, 5, 20]) if ok else r.choice([5, 0])
                t = r.choice([1, 2, 3]) if ok else r.choice([-1, 0, 2])
                form = r.random()
                if form < 0.25 and ok:
                    self.emit(f"{name}.blink({self.arg(d)})")   # times omitted: the signature default (1), whatever earlier calls passed
                    self.features.add("led.blink:default-times")
                elif form < 0.6:
                    self.emit(f"{name}.blink({self.arg(d)}, {self.arg(t)})")
                else:
                    self.emit(f"{name}.blink({self.arg(d)}, times={self.arg(t)})")
            elif o in ("fade_in", "fade_out"):
                st = r.choice([25, 50, 100, 255, 64]) if ok else r.choice([0, -5, 100])
                dl = r.choice([0, 1, 3])
                form = r.random()
                if form < 0.12 and ok:
                    self.emit(f"{name}.{o}(delay_ms={self.arg(r.choice([0, 1]))})")   # step omitted (default 5)
                    self.features.add("led.fade:default-step")
                elif form < 0.3 and ok:
                    self.emit(f"{name}.{o}({self.arg(st)})" if r.random() < 0.5 else f"{name}.{o}(step={self.arg(st)})")   # delay_ms omitted (default 10)
                    self.features.add("led.fade:default-delay")
                elif form < 0.65:
                    self.emit(f"{name}.{o}({self.arg(st)}, {self.arg(dl)})")
                else:
                    self.emit(f"{name}.{o}(step={self.arg(st)}, delay_ms={self.arg(dl)})")
            else:
                pat = [r.choice([0, 1, 1, 0, 128, 255, 2, 77]) for _ in range(r.randint(0, 5))]
                if not ok:
                    pat.append(r.choice([300, -4]))
                if ok and r.random() < 0.3 and pat and all(isinstance(x, int) for x in pat):
                    # the pattern through a list variable that is changed afterwards: the call plays the list as it was then
                    self.nvar += 1
                    pv = f"pat{self.nvar}"
                    self.emit(f"{pv} = {pat}")
                    self.emit(f"{name}.flash_pattern({pv}, {r.choice([0, 2])})")
                    self.emit(f"{pv}.append({r.choice([0, 1, 128])})")
                    if r.random() < 0.5:
                        self.emit(f"{pv}.remove({pat[0]})")
                    if r.random() < 0.5:
                        self.emit(f"{name}.flash_pattern({pv}, 1)")
                    self.features.add("led.flash:list-variable-mutated-later")
                elif r.random() < 0.2 and len(pat) <= 2:
                    self.emit(f"{name}.flash_pattern({pat})")   # delay_ms omitted (default 200)
                    self.features.add("led.flash:default-delay")
                else:
                    self.emit(f"{name}.flash_pattern({pat}, {r.choice([0, 2, 10])})")
        elif kind == "rgb":
            o = r.choice(["set", "set", "on", "off", "fade", "blink", "fade-same"])
            self.features.add("rgb." + o)
            c = [self.byte() for _ in range(3)]
            if o == "fade-same":
                # a fade to the colour already shown (nothing to interpolate)
                if ok:
                    c = [int(x) for x in c]
                    self.emit(f"{name}.set_color({c[0]}, {c[1]}, {c[2]})")
                    for _ in range(r.choice([1, 2])):
                        self.emit(f"{name}.fade({c[0]}, {c[1]}, {c[2]}, duration_ms={r.choice([10, 40])}, steps={r.choice([2, 4, 5])})")
                        self.emit(f"mon.write({name}.get_color()[0])") if False else None
                o = "none"
            if o == "set":
                self.emit(f"{name}.set_color({self.arg(c[0])}, {self.arg(c[1])}, {self.arg(c[2])})")
            elif o == "on":
                k = r.randint(0, 3)
                self.emit(f"{name}.on({', '.join(self.arg(x) for x in c[:k])})")
            elif o == "off":
                self.emit(f"{name}.off()")
            elif o == "fade":
                dur = r.choice([0, 10, 40, 100]) if ok else r.choice([-5, 40])
                steps = r.choice([1, 2, 4, 5, 10]) if ok else r.choice([0, -2, 4])
                if "rgb-fade-tie" not in self.hazards and ok:
                    # keep interpolated values off exact .5 ties (device rounds half away from zero, host round() to even)
                    steps = r.choice([1, 5, 3, 7])
                    c = [x - (x % 1) for x in c]
                form = r.choice(["kw", "kw-swapped", "pos", "pos-dur-only"])
                if ok and r.random() < 0.1 and form != "pos-dur-only":
                    # more steps than a channel has levels: still exactly `steps` updates (prime counts: no interpolated value is a .5 tie)
                    dur, steps = r.choice([300, 520]), r.choice([257, 263, 307])
                    self.features.add("rgb.fade:more-than-255-steps")
                if form == "pos-dur-only" and "rgb-fade-tie" not in self.hazards and ok:
                    # default steps=50: keep every channel delta even so that no interpolated value is an exact .5 tie
                    # (device rounds half away from zero, host round() half to even - known finding KF-rgb-fade-tie-rounding)
                    base = [2 * (x // 2) for x in (r.randint(0, 255), r.randint(0, 255), r.randint(0, 255))]
                    self.emit(f"{name}.set_color({base[0]}, {base[1]}, {base[2]})")
                    c = [2 * (int(x) // 2) for x in c]
                if form == "kw":
                    self.emit(f"{name}.fade({self.arg(c[0])}, {self.arg(c[1])}, {self.arg(c[2])}, duration_ms={self.arg(dur)}, steps={self.arg(steps)})")
                elif form == "kw-swapped":
                    self.emit(f"{name}.fade({self.arg(c[0])}, {self.arg(c[1])}, {self.arg(c[2])}, steps={self.arg(steps)}, duration_ms={self.arg(dur)})")
                elif form == "pos":
                    self.emit(f"{name}.fade({self.arg(c[0])}, {self.arg(c[1])}, {self.arg(c[2])}, {self.arg(dur)}, {self.arg(steps)})")
                else:
                    self.emit(f"{name}.fade({self.arg(c[0])}, {self.arg(c[1])}, {self.arg(c[2])}, {self.arg(dur)})")
                self.features.add("rgb.fade:" + form)
            else:
                t = r.choice([1, 2]) if ok else r.choice([-1, 0, 1])
                dl = r.choice([0, 1, 7]) if ok else r.choice([-3, 4])
                form = r.choice(["kw", "pos", "pos-times-only", "kw-swapped"])
                if form == "kw":
                    self.emit(f"{name}.blink({self.arg(c[0])}, {self.arg(c[1])}, {self.arg(c[2])}, times={self.arg(t)}, delay_ms={self.arg(dl)})")
                elif form == "kw-swapped":
                    self.emit(f"{name}.blink({self.arg(c[0])}, {self.arg(c[1])}, {self.arg(c[2])}, delay_ms={self.arg(dl)}, times={self.arg(t)})")
                elif form == "pos":
                    self.emit(f"{name}.blink({self.arg(c[0])}, {self.arg(c[1])}, {self.arg(c[2])}, {self.arg(t)}, {self.arg(dl)})")
                else:
                    self.emit(f"{name}.blink({self.arg(c[0])}, {self.arg(c[1])}, {self.arg(c[2])}, {self.arg(t)})")
                self.features.add("rgb.blink:" + form)
        elif kind == "servo":
            lo, hi, plo, phi = info["lo"], info["hi"], info["plo"], info["phi"]
            if r.random() < 0.6:
                self.features.add("servo.write")
                if ok:
                    a = r.choice([lo, hi, (lo + hi) / 2, lo + 1, hi - 1, round(r.uniform(lo, hi), 1), int(r.uniform(lo, hi))])
                else:
                    a = r.choice([lo - 10, hi + 25, -400, 1000, hi + 0.5])
                self.emit(f"{name}.write({self.arg(a)})")
            else:
                self.features.add("servo.write_us")
                if ok:
                    p = r.choice([plo, phi, (plo + phi) // 2, plo + 1, phi - 1, int(r.uniform(plo, phi))])
                else:
                    p = r.choice([plo - 100, phi + 100, 0, 5000, -20])
                self.emit(f"{name}.write_us({self.arg(p)})")
        else:
            o = r.choice(["set_speed", "set_speed", "backward", "stop", "coast", "invert", "ramp", "run_for"])
            self.features.add("motor." + o)
            if ok:
                # (0.002 .. 0.0039: the smallest speeds that still give one PWM count, 1/510 <= |v| < 1/255)
                grid = [0.0, 0.25, -0.25, 0.5, -0.5, 1.0, -1.0, 0.75, 0.1, -0.9, 1, 0, round(r.uniform(-1, 1), 2), 0.003, -0.0025, 0.0039, 0.002]
                if "dc-tiny-speed" in self.hazards:
                    grid += [0.001, -0.0015]
            else:
                grid = [1.5, -1.5, 3, -7, 100.0, 0.5]
            sp = r.choice(grid)
            if o == "set_speed":
                self.emit(f"{name}.set_speed({self.arg(sp)})")
            elif o == "backward":
                self.emit(f"{name}.backward({self.arg(sp)})" if r.random() < 0.7 else f"{name}.backward()")
            elif o in ("stop", "coast", "invert"):
                self.emit(f"{name}.{o}()")
            elif o == "ramp":
                if ok and "dc-tiny-speed" not in self.hazards and abs(float(sp)) < 0.05:
                    # a ramp to 0 ends on a float residue (e.g. -5.6e-17): the host then reports mode "drive", the device
                    # (PWM 0) "coast" - known finding KF-dc-tiny-speed-mode; the clean profile ramps to non-zero targets
                    sp = r.choice([0.5, -0.5, 0.25, 1.0])
                dur = r.choice([0, 20, 40, 100]) if ok else r.choice([-10, 40])
                self.emit(f"{name}.ramp({self.arg(sp)}, {self.arg(dur)})" if r.random() < 0.5 else f"{name}.ramp({self.arg(sp)}, duration_ms={self.arg(dur)})")
            else:
                dur = r.choice([0, 5, 30]) if ok else r.choice([-10, 5])
                self.emit(f"{name}.run_for({self.arg(dur)}, {self.arg(sp)})" if r.random() < 0.5 else f"{name}.run_for({self.arg(dur)}, speed={self.arg(sp)})")
        if ok and r.random() < 0.15:
            # an argument that reads the device's OWN state, which the command then changes: evaluated once, before the command acts
            if kind != "rgb":
                self.features.add("argument-reads-own-state:" + kind)
            if kind == "led":
                self.emit(f"{name}.set_brightness(255 - {name}.get_brightness())")
            elif kind == "servo":
                self.emit(f"{name}.write({info['lo'] + info['hi']} - {name}.read())")
            elif kind == "motor":
                start = r.choice([0.75, 0.25, 0.5, 1.0, -0.5])
                self.emit(f"{name}.set_speed({start})")
                form = r.choice(["ramp", "ramp", "set", "run_for"])
                if form == "ramp":
                    self.emit(f"{name}.ramp(-{name}.get_speed(), {r.choice([20, 40])})")
                elif form == "set":
                    self.emit(f"{name}.set_speed(-{name}.get_speed())")
                else:
                    self.emit(f"{name}.run_for({r.choice([5, 10])}, -{name}.get_speed())")
        self.getters(kind, name)

    def loop_varying(self):
        """A command inside an ordinary for-loop whose argument is a variable that the loop body changes AFTER the command:
        every iteration must act on the value the variable holds at that moment."""
        r = self.r
        kind, name, info = r.choice(self.devices)
        self.nvar += 1
        lv = f"lv{self.nvar}"
        n = r.randint(2, 3)
        if kind == "led":
            v0, dv = r.choice([(10, 60), (200, -90), (0, 127)])
            call = r.choice([f"{name}.set_brightness({lv})", f"{name}.blink({lv} % 7, times=1)"])
            self.emit(f"{lv} = {v0}")
            step = f"{lv} = {lv} + {dv}" if dv >= 0 else f"{lv} -= {-dv}"
        elif kind == "rgb":
            v0, dv = r.choice([(10, 60), (250, -100)])
            call = r.choice([f"{name}.set_color({lv}, 5, {lv})", f"{name}.on({lv})"])
            self.emit(f"{lv} = {v0}")
            step = f"{lv} += {dv}" if dv >= 0 else f"{lv} = {lv} - {-dv}"
        elif kind == "servo":
            lo, hi = info["lo"], info["hi"]
            v0, dv = float(lo), float((hi - lo) / 4)
            call = f"{name}.write({lv})"
            self.emit(f"{lv} = {fnum(v0)}")
            step = f"{lv} = {lv} + {fnum(dv)}"
        else:
            v0, dv = r.choice([(-0.5, 0.5), (1.0, -0.25)])
            call = r.choice([f"{name}.set_speed({lv})", f"{name}.run_for(2, {lv})"])
            self.emit(f"{lv} = {v0}")
            step = f"{lv} = {lv} + {dv}"
        self.emit(f"for k{self.nvar} in range({n}):")
        self.ind += 1
        self.emit(call)
        self.getters(kind, name)
        self.emit(step)
        self.ind -= 1
        self.features.add("loop-varying-argument:" + kind)

    def generate(self):
        r = self.r
        self.lines = HDR.splitlines()
        self.declare()
        self.emit('mon.write("@start")')
        n_setup = r.randint(2, 12)
        for _ in range(n_setup):
            self.op()
            if r.random() < 0.2:
                self.emit(f"sleep({r.choice([1, 5, 10])})")
        if self.in_range and r.random() < 0.5:
            self.loop_varying()
        if r.random() < 0.6:
            self.emit("while True:")
            self.ind = 1
            for _ in range(r.randint(1, 6)):
                self.op()
            if self.in_range and r.random() < 0.3:
                self.loop_varying()
            self.emit(f"sleep({r.choice([1, 10, 25])})")
            self.ind = 0
            self.features.add("main-loop")
        return "\n".join(self.lines) + "\n"


def generate(seed_parts, in_range=True, hazards=()):
    from ..common import rng_for

    g = ActGen(rng_for(*seed_parts), in_range=in_range, hazards=hazards)
    src = g.generate()
    return {"source": src, "tol_pins": sorted(g.tol_pins), "features": sorted(g.features), "servo_bounds": g.bounds,
            "motor_pins": sorted(g.motor_pins), "devices": [(k, n) for k, n, _ in g.devices]}
