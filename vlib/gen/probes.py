"""Feature probes: small scripts, each built around ONE construct of everyday Python that the transpiler may reject today
(multi-argument range, iteration over a list, slices, list methods, default/keyword arguments, augmented operators ...),
placed in several block contexts. Rejection is always acceptable (reject-or-preserve); the day a construct is accepted -
a new feature - the firmware has to behave like Python in every context, which the differential then judges."""
from __future__ import annotations

HDR = """from Reduino import target
target("COM3")
from Reduino.Communication import SerialMonitor
from Reduino.Utils import sleep

mon = SerialMonitor(9600)
"""

PROBES = {
    "range2": "for k in range(1, 4):\n    mon.write(k)",
    "range3-down": "for k in range(5, 0, -2):\n    mon.write(k)",
    "range3-up": "for k in range(2, 11, 3):\n    mon.write(k)",
    "range2-var": "lo = 2\nhi = 5\nfor k in range(lo, hi):\n    mon.write(k * 2)",
    "for-in-literal": "for v in [3, 1, 2]:\n    mon.write(v)",
    "for-in-list": "xs = [4, 5, 6]\nfor v in xs:\n    mon.write(v + 1)",
    "for-in-str": "for ch in \"ab\":\n    mon.write(ch)",
    "while-else": "n = 3\nwhile n > 0:\n    n -= 1\nelse:\n    mon.write(\"done\")\nmon.write(n)",
    "for-else": "for k in range(2):\n    mon.write(k)\nelse:\n    mon.write(\"end\")",
    "str-upper": "s = \"abc\"\nmon.write(s.upper())",
    "str-index": "s = \"abc\"\nmon.write(s[1])",
    "str-slice": "s = \"hello\"\nmon.write(s[1:3])",
    "list-slice": "xs = [1, 2, 3, 4]\nys = xs[1:3]\nmon.write(len(ys))\nmon.write(ys[0])",
    "in-list": "xs = [1, 2, 3]\nmon.write(int(3 in xs))\nmon.write(int(7 in xs))",
    "aug-floordiv": "x = 7\nx //= 2\nmon.write(x)",
    "aug-mod": "x = 7\nx %= 4\nmon.write(x)",
    "aug-shift": "x = 3\nx <<= 2\nmon.write(x)\nx >>= 1\nmon.write(x)",
    "aug-bits": "x = 12\nx |= 3\nmon.write(x)\nx &= 10\nmon.write(x)\nx ^= 1\nmon.write(x)",
    "aug-mul": "x = 3\nx *= 4\nmon.write(x)",
    "aug-div": "x = 3.0\nx /= 2\nmon.write(x)",
    "chained-assign": "a = b = 3\nmon.write(a + b)",
    "subscript-store": "xs = [1, 2, 3]\nxs[0] = 9\nmon.write(xs[0])\nmon.write(xs[1])",
    "list-sort": "xs = [3, 1, 2]\nxs.sort()\nmon.write(xs[0])",
    "list-insert": "xs = [1, 2]\nxs.insert(0, 7)\nmon.write(xs[0])\nmon.write(len(xs))",
    "list-pop": "xs = [1, 2, 3]\nv = xs.pop()\nmon.write(v)\nmon.write(len(xs))",
    "list-reverse": "xs = [1, 2, 3]\nxs.reverse()\nmon.write(xs[0])",
    "list-sum": "xs = [1, 2, 3]\nmon.write(sum(xs))",
    "list-max": "xs = [4, 9, 2]\nmon.write(max(xs))\nmon.write(min(xs))",
    "list-concat": "xs = [1, 2] + [3]\nmon.write(len(xs))\nmon.write(xs[2])",
    "list-repeat": "xs = [0] * 3\nmon.write(len(xs))",
    "list-index-of": "xs = [5, 6, 7]\nmon.write(xs.index(6))",
    "list-count": "xs = [5, 6, 5]\nmon.write(xs.count(5))",
    "list-extend": "xs = [1]\nxs.extend([2, 3])\nmon.write(len(xs))",
    "list-clear": "xs = [1, 2]\nxs.clear()\nmon.write(len(xs))",
    "list-shorter-in-branch": "window = [10, 20, 30, 40, 50]\nfallback = [7]\nflag = len(fallback)\nif flag == 1:\n    window = fallback\nmon.write(window[len(window) - 1])\nfor i in range(len(window)):\n    mon.write(window[i])",
    "tuple-index": "t = (1, 2)\nmon.write(t[0] + t[1])",
    "default-arg": "def f(a, b=2):\n    return a + b\nq = f(1)\nmon.write(q)\nr = f(1, 5)\nmon.write(r)",
    "keyword-call": "def f(a, b):\n    return a * 10 + b\nq = f(b=3, a=1)\nmon.write(q)",
    "recursion-local": "def walk(n):\n    if n > 0:\n        d = n * 2\n        r = walk(n - 1)\n        mon.write(d)\n    return n\nq = walk(3)\nmon.write(q)",
    "recursion": "def fact(n):\n    if n < 2:\n        return 1\n    return n * fact(n - 1)\nq = fact(5)\nmon.write(q)",
    "str-repeat": "mon.write(\"ab\" * 3)",
    "str-percent": "mon.write(\"%d-%d\" % (3, 4))",
    "str-format": "mon.write(\"{}-{}\".format(3, 4))",
    "str-join": "mon.write(\"-\".join([\"a\", \"b\"]))",
    "str-cmp": "s = \"abc\"\nmon.write(int(s < \"abd\"))\nmon.write(int(s == \"abc\"))",
    "str-methods": "s = \" ab \"\nmon.write(s.strip())\nmon.write(len(s.strip()))",
    "str-startswith": "s = \"hello\"\nmon.write(int(s.startswith(\"he\")))",
    "enumerate": "for i, v in enumerate([5, 6]):\n    mon.write(i + v)",
    "unpack-loop": "for a, b in [(1, 2), (3, 4)]:\n    mon.write(a + b)",
    "round": "mon.write(round(2.5))\nmon.write(round(3.5))\nmon.write(round(-0.5))",
    "round-ndigits": "mon.write(round(2.345, 1))",
    "int-of-str": "mon.write(int(\"12\") + 1)",
    "float-of-str": "mon.write(float(\"1.5\") * 2)",
    "divmod": "q, r = divmod(17, 5)\nmon.write(q)\nmon.write(r)",
    "pow-call": "mon.write(pow(2, 5))",
    "abs-float": "x = -3.5\nmon.write(abs(x))",
    "bool-call": "x = 3\nmon.write(int(bool(x)))\nmon.write(int(bool(0)))",
    "chained-cmp-mixed": "x = 5\nmon.write(int(1 < x <= 5 != 6))",
    "ternary-str": "x = 2\nmon.write(\"big\" if x > 3 else \"small\")",
    "is-none": "x = None\nmon.write(int(x is None))",
    "walrus": "if (n := 4) > 3:\n    mon.write(n)",
    "nested-def": "def outer(a):\n    def inner(b):\n        return b + 1\n    return inner(a) * 2\nq = outer(3)\nmon.write(q)",
    "lambda": "f = lambda v: v + 1\nmon.write(f(2))",
    "global-write": "total = 0\ndef bump():\n    global total\n    total = total + 5\n    return total\nq = bump()\nq = bump()\nmon.write(total)",
    "negative-step-index": "xs = [1, 2, 3]\nmon.write(xs[-1] + xs[-3])",
    "int-division-mixed": "mon.write(7 / 2)\nmon.write(8 / 2)",
    "float-format": "x = 3.14159\nmon.write(f\"{x:.2f}\")",
    "int-format": "n = 5\nmon.write(f\"{n:03d}\")",
    "multiline-call": "mon.write(\n    3\n)",
    "backslash-continuation": "x = 1 + \\\n    2\nmon.write(x)",
    "semicolon": "x = 1; y = 2\nmon.write(x + y)",
    "pass-only-loop": "for k in range(3):\n    pass\nmon.write(\"after\")",
    "break-else": "for k in range(5):\n    if k == 2:\n        break\nelse:\n    mon.write(\"no\")\nmon.write(k)",
    "while-compound-cond": "a = 0\nb = 5\nwhile a < 3 and b > 3:\n    a += 1\n    b -= 1\nmon.write(a * 10 + b)",
    "try-else-finally": "try:\n    x = 1\nexcept:\n    x = 2\nelse:\n    x = 3\nfinally:\n    mon.write(x)",
}

CONTEXTS = ["top", "in-for", "in-while", "in-if", "in-try", "in-def", "main-loop", "in-for-in-def"]


def _ind(text, n=1):
    return "\n".join(("    " * n + l) if l else l for l in text.splitlines())


def build(name, ctx):
    body = PROBES[name]
    if ctx == "top":
        return HDR + body + "\n"
    if ctx == "in-for":
        # the outer body also first-assigns a name (declarations are hoisted out of the loop and the body is rebuilt)
        return HDR + "for outer in range(2):\n    first = outer + 1\n" + _ind(body) + "\n    mon.write(first)\n"
    if ctx == "in-while":
        return HDR + "w = 2\nwhile w > 0:\n    w -= 1\n    seen = w\n" + _ind(body) + "\n"
    if ctx == "in-if":
        return HDR + "flag = 3\nif flag > 5:\n    mon.write(\"never\")\nelif flag > 2:\n" + _ind(body) + "\nelse:\n    mon.write(\"other\")\n"
    if ctx == "in-try":
        return HDR + "try:\n    tmp = 1\n" + _ind(body) + "\nexcept:\n    mon.write(\"caught\")\n"
    if ctx == "in-def":
        return HDR + "def probe():\n" + _ind(body) + "\n    return 7\nz = probe()\nmon.write(z)\n"
    if ctx == "in-for-in-def":
        return HDR + "def probe(outer_n):\n    for outer in range(outer_n):\n        first = outer\n" + _ind(body, 2) + "\n    return first\nz = probe(2)\nmon.write(z)\n"
    if ctx == "main-loop":
        return HDR + "tick = 0\nwhile True:\n    tick += 1\n    mon.write(tick)\n" + _ind(body) + "\n    sleep(5)\n"
    raise ValueError(ctx)


def all_probes():
    return [(name, ctx, build(name, ctx)) for name in sorted(PROBES) for ctx in CONTEXTS]


# probes that the unchanged transpiler accepts but does not preserve (or emits uncompilable code for): the recorded finding
# that explains each (anything else that is accepted has to behave like Python)
PROBE_FINDINGS = {
    "for-in-list": "KF-unknown-stmt-ignored", "for-in-literal": "KF-unknown-stmt-ignored", "for-in-str": "KF-unknown-stmt-ignored",
    "enumerate": "KF-unknown-stmt-ignored", "unpack-loop": "KF-unknown-stmt-ignored", "chained-assign": "KF-unknown-stmt-ignored",
    "subscript-store": "KF-unknown-stmt-ignored", "list-sort": "KF-unknown-stmt-ignored", "list-insert": "KF-unknown-stmt-ignored",
    "list-reverse": "KF-unknown-stmt-ignored", "list-extend": "KF-unknown-stmt-ignored", "list-clear": "KF-unknown-stmt-ignored",
    "semicolon": "KF-unknown-stmt-ignored", "backslash-continuation": "KF-unknown-stmt-ignored", "multiline-call": "KF-unknown-stmt-ignored",
    "divmod": "KF-unknown-stmt-ignored", "break-else": "KF-for-var-after-loop", "int-division-mixed": "KF-truediv-int",
    "round": "KF-round-semantics", "round-ndigits": "KF-round-semantics",
    "list-concat": "KF-sequence-operators", "list-repeat": "KF-sequence-operators", "list-max": "KF-sequence-operators", "list-sum": "KF-sequence-operators",
    "str-repeat": "KF-sequence-operators",
    "default-arg": "KF-nested-def", "nested-def": "KF-nested-def", "recursion": "KF-nested-def", "recursion-local": "KF-nested-def",
}
