#!/bin/bash
# Offline setup: install icontract beside the repo's interpreter and prebuild the mock runtime objects.
set -e
cd "$(dirname "$0")"
/venv/bin/python - <<'PY'
import sys
sys.path.insert(0, ".")
from vlib import common, fw
common.ensure_deps()
print("runtime objects:", fw.runtime_object("asan"), fw.runtime_object("asan_gxx"))
PY
